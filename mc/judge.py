"""Per-game decision procedures of the solver properties C01-C06 and C14.

Every judge_* function takes a structure cache (exact oracle results, shared by all reward vectors and
both modes of one structure) and one run of the real solver, and returns a list of findings
(klass, observed, expected, explanation).  The sweeps and the single-case replay use the same functions.
"""
from fractions import Fraction as F
from math import inf

from . import oracle as O
from . import run as Rn
from .repo import P1, P2, PR

DELTA = 1e-6
FLOAT_SLACK = 1e-12


class SCache:
    """exact facts about one structure (players, transition lists, finals)"""

    def __init__(self, players, tl, finals):
        self.players = list(players)
        self.tl = [list(r) for r in tl]
        self.finals = list(finals)
        self.n = len(players)
        self._etl = None
        self._v = None
        self._A = None
        self._can = None
        self._stop = None
        self._rg = {}

    @property
    def etl(self):
        if self._etl is None:
            self._etl = O.exact_rows(self.tl)
        return self._etl

    @property
    def order(self):
        """topological order if the structure is large and acyclic (then exact values come from backward induction)"""
        if not hasattr(self, "_order"):
            self._order = O.topo_order(self.tl) if self.n > 9 else None
        return self._order

    def _solve(self):
        if self.order is not None:
            self._v = O.dp_reach(self.players, self.etl, self.finals, self.order)
            fin = set(self.finals)
            T = [s for s in range(self.n) if self._v[s] > 0 and s not in fin]
            d = O.dp_depth(self.tl, self.order)
            self._A = F(max([d[s] for s in T] or [0]))
            return
        self._v, self._A = O.reach_values(self.players, self.etl, self.finals, want_A=True)

    @property
    def vstar(self):
        if self._v is None:
            self._solve()
        return self._v

    @property
    def A(self):
        if self._v is None:
            self._solve()
        return self._A

    @property
    def can(self):
        if self._can is None:
            self._can = O.can_reach(self.tl, self.finals)
        return self._can

    @property
    def stopping(self):
        """stopping for every reward vector that vanishes on absorbing states"""
        if self._stop is None:
            self._stop, self.absorbing = O.structure_is_stopping(self.players, self.tl, self.finals)
        return self._stop

    def eps_reach(self, threshold=DELTA):
        return threshold * (1 + float(self.A)) + FLOAT_SLACK

    def reward_game(self, ctl, restrict1=None, restrict2=None):
        key = (repr(ctl), repr(restrict1), repr(restrict2))
        rg = self._rg.get(key)
        if rg is None and self.order is not None:
            order = O.topo_order(ctl)
            if order is not None:
                rg = O.DPRewardGame(self.players, ctl, order, restrict1, restrict2)
        if rg is None:
            rg = O.RewardGame(self.players, ctl, restrict1, restrict2)
            if len(self._rg) > 16:
                self._rg.clear()
            self._rg[key] = rg
        return rg

    alias = False           # True: value-equal rows of different states are handed to the solver as ONE list object

    def has_equal_rows(self):
        seen = set()
        for r in self.tl:
            k = repr(r)
            if k in seen:
                return True
            seen.add(k)
        return False

    def game(self, rewards):
        if self.alias:
            shared = {}
            tl = [shared.setdefault(repr(r), list(r)) for r in self.tl]
        else:
            tl = [list(r) for r in self.tl]
        return dict(rewards=list(rewards), players=list(self.players), transition_list=tl, final_states=list(self.finals))


class GameRun:
    """one run of the real solve() on (structure, rewards, mode) plus lazily derived exact objects"""
    _c14 = None

    def __init__(self, sc, rewards, prune, confirm=True, outcome=None):
        self.sc = sc
        self.rewards = list(rewards)
        self.prune = prune
        self.out = outcome if outcome is not None else Rn.solve(sc.game(rewards), prune, confirm=confirm)
        self._ctl = None
        self._R = None

    @property
    def ok(self):
        return self.out.kind == "ok"

    @property
    def ctl(self):
        if self._ctl is None:
            res = self.out.result
            self._ctl = O.conditioned(self.sc.players, self.sc.etl, res[3], res[1], self.prune)
        return self._ctl

    @property
    def R(self):
        if self._R is None:
            self._R = O.reachable_from(self.ctl, 0)
        return self._R


# ------------------------------------------------------------------------------------------------- C06

def judge_c06(sc, gr):
    """outcome class only (hypothesis: the game is stopping)"""
    out = gr.out
    v0 = sc.vstar[0]
    must_fail = gr.prune and v0 == 0
    if out.kind == "diverged":
        why = false_tie_cycle(sc, gr) if gr.prune else None
        if why:
            return [("KF-C06-2", out.error, "a result", why)]
        if not gr.prune:
            # not pruned: the run may simply need more sweeps than the budget allows (expected absorption time in the millions
            # when a rewarded cycle leaks 1e-7 per round); that is slow, not "forever", and is not judged
            so = Rn.solve_reach_seam(sc.game(gr.rewards), False)
            if so.kind == "ok":
                ctl = O.conditioned(sc.players, sc.etl, so.result[0], so.result[1], False)
                AR = sc.reward_game(ctl).max_time(range(sc.n))
                if AR != inf and float(AR) > 2e4:
                    return [("SKIP-too-slow-to-judge", float(AR), None, "expected absorption time %.3g: more sweeps than the budget" % float(AR))]
        return [("C06/no-termination", out.error, "a result or the no-solution error",
                 "solve() did not terminate within the deterministic budget on a stopping game")]
    if out.kind in ("exc", "valueerror"):
        return [("C06/stray-exception", out.error, "a result or the no-solution error",
                 "solve() raised %s on a well-formed stopping game" % out.error)]
    if out.kind == "nosol":
        computed = None
        if not must_fail and gr.prune and 0 < v0 <= sc.eps_reach():
            # the signature of KF-C06-1 includes that the iteration itself ended with exactly 0 at state 0 (observed through the
            # component seam without pruning); an error raised although the iteration computed a positive value is not that finding
            so = Rn.solve_reach_seam(sc.game(gr.rewards), False)
            computed = so.result[0][0] if so.kind == "ok" else None
        if not must_fail and gr.prune and 0 < v0 <= sc.eps_reach() and computed == 0:
            # KF-C06-1: the exact value of the initial state is positive but not larger than the convergence tolerance, and the
            # iteration stopped (largest change <= threshold) before it propagated to state 0, which still reports exactly 0
            return [("KF-C06-1", out.error, "a complete result",
                     "no-solution error although the exact value of state 0 is %s (%.3g, below the convergence tolerance %.3g)"
                     % (v0, float(v0), sc.eps_reach()))]
        if not must_fail:
            return [("C06/spurious-no-solution", out.error, "a complete result",
                     "no-solution error although %s" % ("pruning is off" if not gr.prune else "the exact value of state 0 is %s%s"
                                                        % (v0, "" if computed is None else " and the reachability iteration itself ends with %r there" % (computed,))))]
        return []
    if must_fail:
        return [("C06/missing-no-solution", "a result", "ValueError(no solution)",
                 "pruning is on and the exact value of state 0 is 0, but solve() returned a result")]
    bad = Rn.well_shaped(out.result, sc.players)
    if bad:
        return [("C06/incomplete-result", bad, "complete 8-tuple", "solve() returned an incomplete result: " + bad)]
    return []


def explain_no_return(sc, rewards, prune):
    """for a run that did not come back within the alarm: a finding (KF-C06-2 / SKIP) if one of the exact explanations
    applies, else None (then the run is confirmed under the deterministic budget and judged)"""
    class _G:
        pass
    g = _G()
    g.rewards, g.prune = list(rewards), prune
    if prune:
        why = false_tie_cycle(sc, g)
        return ("KF-C06-2", "no result within the alarm", "a result", why) if why else None
    so = Rn.solve_reach_seam(sc.game(rewards), False)
    if so.kind == "ok":
        ctl = O.conditioned(sc.players, sc.etl, so.result[0], so.result[1], False)
        AR = sc.reward_game(ctl).max_time(range(sc.n))
        if AR != inf and float(AR) > 2e4:
            return ("SKIP-too-slow-to-judge", float(AR), None, "expected absorption time %.3g: more sweeps than the budget" % float(AR))
    return None


def false_tie_cycle(sc, gr):
    """signature of KF-C06-2: the pruned solve of a stopping game does not terminate because (a) the reachability phase keeps,
    at some Player-1 state, an action whose exact value is below the optimum by no more than the convergence tolerance
    (a tolerance-level 'false tie' of the documented 6-digit rounding), and (b) the conditioned game built from the REPORTED
    probabilities and strategies therefore contains an end component with a positive reward reachable from the initial state.
    Returns a description, or None if the signature does not match."""
    so = Rn.solve_reach_seam(sc.game(gr.rewards), False)
    if so.kind != "ok":
        return None
    probs, strats = so.result
    ctl = O.conditioned(sc.players, sc.etl, probs, strats, True)
    R = O.reachable_from(ctl, 0)
    absorbing = set(s for s in range(sc.n) if not ctl[s] or all(t == s for _, t in ctl[s]))
    C = O.end_component_states(sc.players, [row if row else [(F(1), s)] for s, row in enumerate(ctl)], absorbing)
    C = set(s for s in C if s in R)
    if not C or not any(gr.rewards[s] > 0 for s in C):
        return None
    v = sc.vstar
    eps = sc.eps_reach()
    false_ties = []
    for s in R:
        if sc.players[s] != P1:
            continue
        opt = max(v[t] for _, t in sc.tl[s])
        for a, t in sc.tl[s]:
            if a in strats[s] and v[t] != opt:
                if float(opt - v[t]) > eps:
                    return None           # a clearly worse action was kept: not this finding
                false_ties.append((s, a, str(v[t]), str(opt)))
    if not false_ties:
        return None
    return ("solve() with pruning does not terminate: at state %d action %r (exact value %s) is kept next to the optimum %s, "
            "within the convergence tolerance, and the conditioned game then has a rewarded end component %s"
            % (false_ties[0][0], false_ties[0][1], false_ties[0][2], false_ties[0][3], sorted(C)))


# ------------------------------------------------------------------------------------------------- C01

def judge_probs(sc, probs, threshold=DELTA, where="solve()[3]"):
    """probabilities vs exact max-min values"""
    f = []
    fin = set(sc.finals)
    v = sc.vstar
    eps = sc.eps_reach(threshold)
    maxratio = 0.0
    if not isinstance(probs, list) or len(probs) != sc.n:
        return [("C01/shape", repr(probs)[:200], "list of %d numbers" % sc.n, "%s is not a probability vector" % where)], 0.0
    for s in range(sc.n):
        x = probs[s]
        if s in fin:
            if x != 1:
                f.append(("C01/final-not-1", x, 1, "%s: final state %d reports %r, must be exactly 1" % (where, s, x)))
        elif s not in sc.can:
            if x != 0:
                f.append(("C01/unreachable-not-0", x, 0, "%s: state %d has no path to a final state but reports %r" % (where, s, x)))
        elif v[s] == 0:
            if x != 0:
                f.append(("C01/value0-not-0", x, 0, "%s: state %d has exact value 0 but reports %r" % (where, s, x)))
        else:
            e = float(v[s]) - x
            if e < -FLOAT_SLACK:
                f.append(("C01/above-true-value", x, str(v[s]), "%s: state %d reports %r above the exact value %s" % (where, s, x, v[s])))
            elif e > eps:
                f.append(("C01/outside-tolerance", x, str(v[s]),
                          "%s: state %d reports %r, exact value %s, error %.3g > tolerance %.3g (A=%s)"
                          % (where, s, x, v[s], e, eps, sc.A)))
            elif e > 0:
                maxratio = max(maxratio, e / eps)
        if f:
            break
    return f, maxratio


# ------------------------------------------------------------------------------------------------- C04

def _exact_opt_actions(sc, s, values, rows=None):
    row = (rows or sc.tl)[s]
    vals = [values[t] for _, t in row]
    opt = max(vals) if sc.players[s] == P1 else min(vals)
    return [a for (a, t), x in zip(row, vals) if x == opt], opt, vals


def _rule_actions(who, row, numbers, digits=6):
    """the documented rule: arg-max / arg-min with ties over round(x, digits), in transition order"""
    best = None
    acts = []
    for a, t in row:
        x = round(numbers[t], digits)
        if best is None or (x > best if who == P1 else x < best):
            best, acts = x, [a]
        elif x == best:
            acts.append(a)
    return acts


def _is_sublist(small, big):
    it = iter(big)
    return all(any(x == y for y in it) for x in small)


def judge_c04(sc, strategies, probs, where="solve()[1]"):
    """returns (findings, known) - known are instances matching the KF-C04-1 signature"""
    f, known = [], []
    v = sc.vstar
    eps = sc.eps_reach()
    if not isinstance(strategies, list) or len(strategies) != sc.n:
        return [("C04/shape", repr(strategies)[:200], None, "%s is not a strategy list" % where)], []
    for s in range(sc.n):
        who = sc.players[s]
        rep = strategies[s]
        if who == PR:
            if rep is not None:
                f.append(("C04/prob-has-strategy", rep, None, "%s: probabilistic state %d has strategy %r" % (where, s, rep)))
            continue
        E, opt, vals = _exact_opt_actions(sc, s, v)
        # scope: competing exact values equal or further apart than the tolerance
        distinct = sorted(set(vals))
        if any(float(b - a) <= eps + DELTA for a, b in zip(distinct, distinct[1:])):
            continue
        if rep == E:
            continue
        # KF-C04-1 signature
        if (isinstance(rep, list) and rep and len(rep) < len(E) and _is_sublist(rep, E)
                and rep == _rule_actions(who, sc.tl[s], probs)
                and all(abs(float(opt) - probs[t]) <= eps for (a, t) in sc.tl[s] if a in E)):
            known.append(("KF-C04-1", rep, E,
                          "%s: state %d (%s) reports %r, exact optimal actions %r (rounded tie on non-converged iterates)"
                          % (where, s, who, rep, E)))
            continue
        kind = "C04/wrong-actions"
        if isinstance(rep, list) and set(rep) == set(E):
            kind = "C04/wrong-order"
        elif isinstance(rep, list) and set(rep) < set(E):
            kind = "C04/tie-lost"
        elif isinstance(rep, list) and set(rep) > set(E):
            kind = "C04/worse-action-listed"
        f.append((kind, rep, E, "%s: state %d (%s) reports %r, exact value-optimal actions in transition order are %r (successor values %s)"
                  % (where, s, who, rep, E, [str(x) for x in vals])))
        break
    return f, known


# ------------------------------------------------------------------------------------------------- C03

def _rows_equal(exp, got, surviving_mass=1.0):
    """position-by-position comparison; probabilities equal up to float round-off (relative 1e-12)"""
    if len(exp) != len(got):
        return False
    # the code now divides by the surviving mass itself (fix bc2917a), which is exact up to a few units in the last place;
    # the earlier allowance for the cancellation in 1 - removed (8 ulp / surviving mass) is no longer needed
    tol = 1e-12
    for a, b in zip(exp, got):
        if a[1] != b[1]:
            return False
        if isinstance(a[0], str) or isinstance(b[0], str):
            if a[0] != b[0]:
                return False
        else:
            x, y = float(a[0]), float(b[0])
            if abs(x - y) > tol * max(1.0, abs(x)):
                return False
    return True


def _surviving_mass(sc, s, probs, prune):
    if not prune or sc.players[s] != PR:
        return 1.0
    return sum((p for p, t in sc.etl[s] if probs[t] != 0), F(0)) or 1.0


def judge_c03(sc, gr):
    """structural comparison of the observed conditioned transition lists with the prescribed ones"""
    f = []
    res = gr.out.result
    snap = gr.out.snap
    probs = res[3]
    if snap is None or len(snap) != sc.n:
        return [("C03/no-observation", None, None, "conditioned transition lists could not be observed")]
    ctl = gr.ctl
    R = gr.R
    for s in range(sc.n):
        who = sc.players[s]
        got = snap[s]
        show = lambda rows: [(str(a), t) for a, t in rows]
        if gr.prune and who in (P1, PR):
            dead = [(a, t) for a, t in got if probs[t] == 0]
            if dead:
                f.append(("C03/dead-branch-kept", show(got), show(ctl[s]),
                          "state %d (%s) keeps %r into a state reported with probability 0" % (s, who, show(dead))))
                break
        if s in R or not gr.prune:
            if not _rows_equal(ctl[s], got, _surviving_mass(sc, s, probs, gr.prune)):
                f.append(("C03/wrong-list", show(got), show(ctl[s]),
                          "state %d (%s), reachable in the conditioned game, has transitions %r, prescribed %r"
                          % (s, who, show(got), show(ctl[s]))))
                break
        else:
            # not reachable from the initial state: may additionally have been emptied, nothing else
            if got and not _rows_equal(ctl[s], got, _surviving_mass(sc, s, probs, gr.prune)):
                f.append(("C03/wrong-list-unreachable", show(got), show(ctl[s]),
                          "state %d (%s), unreachable in the conditioned game, has transitions %r: neither emptied nor the prescribed %r"
                          % (s, who, show(got), show(ctl[s]))))
                break
    return f


# ------------------------------------------------------------------------------------------------- C02

def reward_eps(AR, rewards, value):
    """|v - x| <= delta * A_R holds whatever the size of the rewards (the stopping rule bounds the absolute change of a sweep);
    the second term is float round-off, relative to the value"""
    return DELTA * (1 + float(AR)) + 1e-9 * abs(float(value))


def judge_c02(sc, gr):
    """reported rewards vs exact max-min total reward of the conditioned game; returns (findings, max ratio)"""
    res = gr.out.result
    rew = res[2]
    ctl = gr.ctl
    states = sorted(gr.R) if gr.prune else list(range(sc.n))
    rg = sc.reward_game(ctl)
    ev = rg.values(gr.rewards)
    AR = rg.max_time(states)
    if AR == inf:
        return [], 0.0, True          # not stopping on the compared part: outside the hypothesis
    f = []
    maxratio = 0.0
    for s in states:
        if ev[s] == inf:
            return [], 0.0, True
        eps = reward_eps(AR, gr.rewards, ev[s])
        e = abs(float(ev[s]) - rew[s])
        if e > eps:
            f.append(("C02/wrong-reward", rew[s], str(ev[s]),
                      "state %d reports expected reward %r, exact value of the conditioned game %s (error %.3g > tolerance %.3g, A_R=%s, prune=%s)"
                      % (s, rew[s], ev[s], e, eps, AR, gr.prune)))
            break
        if eps > 0:
            maxratio = max(maxratio, e / eps)
    return f, maxratio, False


# ------------------------------------------------------------------------------------------------- C05

def judge_c05_inclusion(sc, res):
    fs, rs = res[0], res[1]
    for s in range(sc.n):
        if sc.players[s] == P1:
            if not isinstance(fs[s], list) or not isinstance(rs[s], list) or not set(fs[s]) <= set(rs[s]):
                return [("C05/not-subset", fs[s], rs[s],
                         "Player 1 state %d: final strategy %r is not a subset of the reachability strategy %r" % (s, fs[s], rs[s]))]
    return []


def _acyclic_on(ctl, R):
    """no cycle among R except self-loops of absorbing states"""
    color = {}
    for root in R:
        if root in color:
            continue
        stack = [(root, iter([t for _, t in ctl[root]]))]
        color[root] = 1
        while stack:
            s, it = stack[-1]
            adv = False
            for t in it:
                if t == s and all(u == s for _, u in ctl[s]):
                    continue
                c = color.get(t)
                if c == 1:
                    return False
                if c is None:
                    color[t] = 1
                    stack.append((t, iter([u for _, u in ctl[t]])))
                    adv = True
                    break
            if not adv:
                color[s] = 2
                stack.pop()
    return True


def judge_c05_exact(sc, gr):
    """final strategies vs exact reward-optimal permitted actions at states reachable in the conditioned game.
    returns (findings, judged_states, skipped_states)"""
    res = gr.out.result
    fs = res[0]
    ctl = gr.ctl
    R = gr.R
    rg = sc.reward_game(ctl)
    ev = rg.values(gr.rewards)
    AR = rg.max_time(sorted(R))
    if AR == inf or any(ev[s] == inf for s in R):
        return [], 0, 0
    acyclic = _acyclic_on(ctl, R)
    judged = skipped = 0
    f = []
    for s in sorted(R):
        who = sc.players[s]
        if who == PR:
            if fs[s] is not None:
                f.append(("C05/prob-has-strategy", fs[s], None, "probabilistic state %d has final strategy %r" % (s, fs[s])))
                break
            continue
        row = ctl[s]
        vals = [ev[t] for _, t in row]
        opt = max(vals) if who == P1 else min(vals)
        E = [a for (a, t), x in zip(row, vals) if x == opt]
        distinct = sorted(set(vals))
        tol = reward_eps(AR, gr.rewards, max(vals)) + DELTA
        separated = all(float(b - a) > tol for a, b in zip(distinct, distinct[1:]))
        if acyclic:
            in_scope = separated                  # exact ties are in scope; distinct values closer than the tolerance are not
        else:
            in_scope = separated and all(x == 0 for x in vals if vals.count(x) > 1)
        if not in_scope:
            skipped += 1
            continue
        judged += 1
        if fs[s] != E and isinstance(fs[s], list) and fs[s] and len(fs[s]) < len(E) and _is_sublist(fs[s], E):
            # reward analogue of KF-C04-1: an exact tie lost because round(x, 6) separates the two float evaluations
            rew = res[2]
            names = [a for a, _ in row]
            best, acts = None, []
            for a, t in row:
                x = round(rew[t], 6)
                if best is None or (x > best if who == P1 else x < best):
                    best, acts = x, [a]
                elif x == best:
                    acts.append(a)
            near = all(abs(float(opt) - rew[t]) <= reward_eps(AR, gr.rewards, opt) + 1e-6 for (a, t) in row if a in E)
            if acts == fs[s] and near:
                f.append(("KF-C04-1", fs[s], E,
                          "state %d (%s): final strategy %r, exact reward-optimal actions %r: an exact tie lost by 6-digit rounding "
                          "(reported successor rewards %s)" % (s, who, fs[s], E, [rew[t] for _, t in row])))
                continue
        if fs[s] != E:
            f.append(("C05/wrong-final-strategy", fs[s], E,
                      "state %d (%s): final strategy %r, exact reward-optimal permitted actions %r (conditioned successor rewards %s, prune=%s)"
                      % (s, who, fs[s], E, [str(x) for x in vals], gr.prune)))
            break
    return f, judged, skipped


# ------------------------------------------------------------------------------------------------- C14

def judge_c14(sc, gr):
    """diagnostic vectors vs exact recomputation from the reported strategies.
    returns (findings, in_scope: bool, max ratio)"""
    res = gr.out.result
    fs, rs = res[0], res[1]
    pmr, rmr = res[6], res[7]
    ctl = gr.ctl
    R = sorted(gr.R)
    rg = sc.reward_game(ctl)
    ev = rg.values(gr.rewards)
    AR = rg.max_time(R)
    if AR == inf or any(ev[s] == inf for s in R):
        return [], False, 0.0
    restrict1, restrict2_final, restrict2_reach = {}, {}, {}
    for s in R:
        who = sc.players[s]
        if who == PR:
            continue
        row = ctl[s]
        if not row:
            return [], False, 0.0
        vals = [ev[t] for _, t in row]
        opt = max(vals) if who == P1 else min(vals)
        if vals.count(opt) != 1:
            return [], False, 0.0             # exact reward tie: outside the quantifier
        if not isinstance(fs[s], list) or len(fs[s]) != 1:
            return [], False, 0.0             # final strategy is not a single action
        names = [a for a, _ in row]
        if fs[s][0] not in names:
            return [], False, 0.0
        idx = names.index(fs[s][0])
        if who == P1:
            restrict1[s] = [idx]
        else:
            restrict2_final[s] = [idx]
            allowed = [i for i, a in enumerate(names) if a in (rs[s] or [])]
            if not allowed:
                return [], False, 0.0
            restrict2_reach[s] = allowed
    # states outside R keep all their choices; they cannot influence values on R (R is closed)
    f = []
    maxratio = 0.0
    # (a) probability of reaching a final state when both follow their final strategies
    sig = {s: (restrict1[s][0] if s in restrict1 else 0) for s in range(sc.n) if sc.players[s] == P1 and ctl[s]}
    tau = {s: (restrict2_final[s][0] if s in restrict2_final else 0) for s in range(sc.n) if sc.players[s] == P2 and ctl[s]}
    succ = O.induced(sc.players, ctl, sig, tau)
    y = O.chain_reach(sc.n, succ, sc.finals)
    eps_p = DELTA * (1 + float(AR)) + 1e-9
    for s in R:
        e = abs(float(y[s]) - pmr[s])
        if e > eps_p:
            f.append(("C14/prob-min-rew", pmr[s], str(y[s]),
                      "state %d: 'probabilities under minimal reward' reports %r, exact probability under the reported final strategies is %s (prune=%s)"
                      % (s, pmr[s], y[s], gr.prune)))
            break
        maxratio = max(maxratio, e / eps_p)
    if gr.prune and not f and abs(pmr[0] - 1) > eps_p:
        f.append(("C14/prob-min-rew-initial", pmr[0], 1, "pruning is on but the initial state reports %r" % pmr[0]))
    if f:
        return f, True, maxratio
    # (b) expected total reward: Player 1 follows its final strategy, Player 2 picks the cheapest reachability-optimal action
    rg2 = sc.reward_game(ctl, restrict1, restrict2_reach)
    z = rg2.values(gr.rewards)
    AR2 = rg2.max_time(R)
    if AR2 == inf or any(z[s] == inf for s in R):
        return [], False, maxratio
    for s in R:
        eps = reward_eps(max(AR, AR2), gr.rewards, z[s])
        e = abs(float(z[s]) - rmr[s])
        if e > eps:
            f.append(("C14/rew-min-reach", rmr[s], str(z[s]),
                      "state %d: 'rewards under minimal reachability' reports %r, exact value under the reported strategies is %s (prune=%s)"
                      % (s, rmr[s], z[s], gr.prune)))
            break
        maxratio = max(maxratio, e / eps)
    return f, True, maxratio
