"""./check <ID> [--tier quick|thorough] [--replay <path>] [--jobs N]

exit 0: the property held on everything explored (KNOWN-FINDING lines may be printed)
exit 1: at least one `VIOLATION property=<ID> replay=<path>` line was printed
exit 2: harness error (vacuity guard, replay disagreement, worker crash) - never a property verdict
"""
import argparse
import ast
import hashlib
import importlib
import json
import os
import sys
import time
import traceback

HERE = os.path.dirname(os.path.dirname(os.path.abspath(__file__)))
PROPS = ["C%02d" % i for i in range(1, 18)]
MAX_PRINT = 5


class Ctx:
    def __init__(self, prop, tier, seed, jobs):
        self.prop = prop
        self.tier = tier
        self.seed = seed
        self.jobs = jobs
        self.thorough = tier == "thorough"


def load_known():
    """known_findings.txt: 'open: property=<id> id=<KF id> <text>' and 'fixed: property=<id> <commit> <text>'.
    Only 'open' entries suppress anything, and only the finding whose id they name."""
    path = os.path.join(HERE, "known_findings.txt")
    open_ids = {}
    if os.path.exists(path):
        for line in open(path):
            line = line.strip()
            if line.startswith("open:"):
                fields = dict(f.split("=", 1) for f in line.split()[1:3] if "=" in f)
                if "id" in fields and "property" in fields:
                    open_ids[fields["id"]] = fields["property"].split(",")
    return open_ids


def write_replay(prop, case):
    text = repr(case)
    ast.literal_eval(text)                                   # must round-trip
    h = hashlib.sha1(text.encode()).hexdigest()[:12]
    d = os.path.join(HERE, "replays", prop)
    os.makedirs(d, exist_ok=True)
    path = os.path.join(d, h + ".json")
    doc = {"property": prop,
           "kind": case.get("kind"),
           "class": case.get("klass"),
           "explanation": case.get("explanation"),
           "input": _jsonable(case.get("input")),
           "config": _jsonable(case.get("config")),
           "observed": _jsonable(case.get("observed")),
           "expected": _jsonable(case.get("expected")),
           "case_repr": text}
    with open(path, "w") as f:
        json.dump(doc, f, indent=1, default=str)
    return path


def _jsonable(x):
    try:
        json.dumps(x)
        return x
    except (TypeError, ValueError):
        return repr(x)


def read_replay(path):
    with open(path) as f:
        doc = json.load(f)
    return doc["property"], ast.literal_eval(doc["case_repr"])


def confirm(mod, case):
    """second execution of a recorded case: alone first - in a forked child, so that the attempt leaves nothing behind in this
    process - and, if that does not reproduce it, together with the history of the worker process that found it"""
    from . import par
    try:
        again = par.in_forked_child(lambda: mod.replay(case))
    except Exception:                                        # noqa: BLE001
        traceback.print_exc()
        again = None
    if again:
        return again
    try:
        again = par.in_forked_child(lambda: par.replay_history(case))
    except Exception:                                        # noqa: BLE001
        traceback.print_exc()
        again = None
    if again:
        case["explanation"] = "%s [%s]" % (case.get("explanation"), again)
    return again


def main(argv=None):
    ap = argparse.ArgumentParser(prog="check")
    ap.add_argument("prop")
    ap.add_argument("--tier", default=os.environ.get("VERIF_TIER", "quick"), choices=["quick", "thorough"])
    ap.add_argument("--replay")
    ap.add_argument("--jobs", type=int, default=None)
    ap.add_argument("--seed", type=int, default=None)
    args = ap.parse_args(argv)
    prop = args.prop.upper()
    if prop not in PROPS:
        print("unknown property %s" % prop)
        return 2
    try:
        seed = args.seed if args.seed is not None else int(os.environ.get("VERIF_SEED", "0") or 0)
    except ValueError:
        seed = 0
    t0 = time.time()
    try:
        from . import par
        mod = importlib.import_module("mc.props." + prop.lower())
        if args.replay:
            p2, case = read_replay(args.replay)
            if p2 != prop:
                print("replay file is for %s" % p2)
                return 2
            v = confirm(mod, case)
            if v:
                print("replayed: still violates - %s" % v)
                print("VIOLATION property=%s replay=%s" % (prop, args.replay))
                return 1
            print("replayed: no violation on the current tree")
            return 0
        ctx = Ctx(prop, args.tier, seed, args.jobs or par.default_jobs())
        report = mod.run(ctx)
    except Exception:                                        # noqa: BLE001
        print("HARNESS-ERROR property=%s" % prop)
        traceback.print_exc()
        return 2

    violations = report.get("violations", [])
    known = report.get("known", {})
    open_ids = load_known()
    # findings observed but not listed in the committed file are violations like any other
    for kf_id, info in sorted(known.items()):
        if kf_id in open_ids and prop in open_ids[kf_id]:
            print("KNOWN-FINDING: property=%s id=%s %s (instances in this run: %d)"
                  % (prop, kf_id, info.get("what", ""), info.get("count", 0)))
        else:
            violations = violations + info.get("cases", [])

    printed = 0
    seen_classes = set()
    harness_error = False
    for case in violations:
        klass = case.get("klass", "")
        if klass in seen_classes:
            continue
        seen_classes.add(klass)
        if printed >= MAX_PRINT:
            continue
        again = confirm(mod, case)
        if not again:
            # e.g. a violation that depends on what the exploring process had executed before; it is reported, but
            # never as a VIOLATION line, and it only decides the exit status if nothing else could be confirmed
            print("UNCONFIRMED property=%s: a violation of class %r did not reproduce on replay: %r"
                  % (prop, klass, case.get("explanation")))
            harness_error = True
            continue
        path = write_replay(prop, case)
        print("  %s" % case.get("explanation"))
        print("VIOLATION property=%s replay=%s" % (prop, path))
        printed += 1

    cov = report.get("coverage", {})
    cov.setdefault("exhaustive", True)
    evidence = {"property_id": prop, "tier": args.tier, "seed": seed, "level": "model_checking",
                "coverage": cov, "assumptions": report.get("assumptions", []),
                "wall_s": round(time.time() - t0, 2), "violations": len(violations),
                "violation_classes": sorted(seen_classes),
                "known_findings_observed": {k: v.get("count", 0) for k, v in known.items()},
                "repo": os.environ.get("CR_VERIF_REPO", "/repo"), "jobs": ctx.jobs}
    # evidence always goes next to this script, also when a scratch tree is checked (self-test): then to a side file
    evdir = os.path.join(HERE, "evidence")
    os.makedirs(evdir, exist_ok=True)
    name = prop + ".json" if os.environ.get("CR_VERIF_REPO", "/repo") == "/repo" else prop + ".scratch.json"
    if os.environ.get("CR_VERIF_EVIDENCE_DIR"):
        evdir = os.environ["CR_VERIF_EVIDENCE_DIR"]
        os.makedirs(evdir, exist_ok=True)
    with open(os.path.join(evdir, name), "w") as f:
        json.dump(evidence, f, indent=1, default=str)
        f.write("\n")
    print("%s %s: states=%s transitions=%s validated=%s nontrivial=%s exhaustive=%s wall=%.1fs violations=%d"
          % (prop, args.tier, cov.get("states"), cov.get("transitions"), cov.get("traces_validated_against_impl"),
             cov.get("distinct_nontrivial"), cov.get("exhaustive"), time.time() - t0, len(violations)))
    if printed:
        return 1
    if harness_error:
        print("HARNESS-ERROR property=%s: violations were found but none could be confirmed by replay" % prop)
        return 2
    return 0


if __name__ == "__main__":
    sys.exit(main())
