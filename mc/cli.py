"""./check <ID> [--tier quick|thorough] [--replay <path>] [--jobs N]

exit 0: the property held on everything explored (KNOWN-FINDING lines may be printed)
exit 1: at least one `VIOLATION property=<ID> replay=<path>` line was printed
exit 2: harness error (vacuity guard, replay disagreement, worker crash) - never a property verdict
"""
import argparse
import ast
import hashlib
import importlib
import json
import os
import sys
import time
import traceback

HERE = os.path.dirname(os.path.dirname(os.path.abspath(__file__)))
PROPS = ["C%02d" % i for i in range(1, 18)]
MAX_PRINT = 5


class Ctx:
    def __init__(self, prop, tier, seed, jobs):
        self.prop = prop
        self.tier = tier
        self.seed = seed
        self.jobs = jobs
        self.thorough = tier == "thorough"


def load_known():
    """known_findings.txt: 'open: property=<id> id=<KF id> <text>' and 'fixed: property=<id> <commit> <text>'.
    Only 'open' entries suppress anything, and only the finding whose id they name."""
    path = os.path.join(HERE, "known_findings.txt")
    open_ids = {}
    if os.path.exists(path):
        for line in open(path):
            line = line.strip()
            if line.startswith("open:"):
                fields = dict(f.split("=", 1) for f in line.split()[1:3] if "=" in f)
                if "id" in fields and "property" in fields:
                    open_ids[fields["id"]] = fields["property"].split(",")
    return open_ids


def write_replay(prop, case):
    text = repr(case)
    ast.literal_eval(text)                                   # must round-trip
    h = hashlib.sha1(text.encode()).hexdigest()[:12]
    d = os.path.join(HERE, "replays", prop)
    os.makedirs(d, exist_ok=True)
    path = os.path.join(d, h + ".json")
    doc = {"property": prop,
           "kind": case.get("kind"),
           "class": case.get("klass"),
           "explanation": case.get("explanation"),
           "input": _jsonable(case.get("input")),
           "config": _jsonable(case.get("config")),
           "observed": _jsonable(case.get("observed")),
           "expected": _jsonable(case.get("expected")),
           "environment": {k: os.environ[k] for k in ("PYTHONOPTIMIZE", "PYTHONHASHSEED", "VERIF_ONE_CPU", "LC_ALL", "LANG", "PYTHONUTF8", "PYTHONCOERCECLOCALE") if os.environ.get("VERIF_CONFIG_PASS") and k in os.environ},
           "case_repr": text}
    with open(path, "w") as f:
        json.dump(doc, f, indent=1, default=str)
    return path


def _jsonable(x):
    try:
        json.dumps(x)
        return x
    except (TypeError, ValueError):
        return repr(x)


def read_replay(path):
    with open(path) as f:
        doc = json.load(f)
    return doc["property"], ast.literal_eval(doc["case_repr"])


def replay_environment(path):
    with open(path) as f:
        return json.load(f).get("environment") or {}


PASSES = [("optimize", "interpreter with assertions stripped (python -O: __debug__ is False)", {"PYTHONOPTIMIZE": "1"}),
          ("hashseed", "another string-hash seed (set and dict orders of strings differ)", {"PYTHONHASHSEED": "4242"}),
          ("onecpu", "every worker process restricted to one CPU (os.sched_getaffinity reports a single core)", {"VERIF_ONE_CPU": "1"}),
          # the generator side handles plain ASCII text only, so it must work under any locale; the solver-side checks use non-ASCII
          # action names, for which the tool itself depends on a UTF-8 locale (the launcher sets PYTHONUTF8=1)
          ("clocale", "C locale without UTF-8 mode (text files default to ASCII)",
           {"LC_ALL": "C", "LANG": "C", "PYTHONUTF8": "0", "PYTHONCOERCECLOCALE": "0"}, ("C08", "C11", "C15", "C17"))]
LIGHT_FRACTION = 6


def configuration_passes(prop, tier, seed, jobs):
    """The same check under other interpreter configurations a user can legitimately choose, each in a process tree of its own and on
    every LIGHT_FRACTION-th shard (rotated by VERIF_SEED).  Their VIOLATION lines are printed by the passes themselves (each confirms
    and records its cases like the main run; the replay file names the environment it needs)."""
    import subprocess
    import tempfile
    procs = []
    for entry in PASSES:
        name, what, env = entry[:3]
        if len(entry) > 3 and prop not in entry[3]:
            continue
        tmp = tempfile.mkdtemp(prefix="crverif_pass_")
        e = dict(os.environ, VERIF_CONFIG_PASS=name, VERIF_LIGHT=str(LIGHT_FRACTION), CR_VERIF_EVIDENCE_DIR=tmp, **env)
        p = subprocess.Popen([sys.executable, "-m", "mc.cli", prop, "--tier", tier, "--seed", str(seed), "--jobs", str(jobs)],
                             cwd=HERE, env=e, stdout=subprocess.PIPE, stderr=subprocess.STDOUT, text=True)
        procs.append((name, what, env, tmp, p, time.time()))
    rc, out = 0, []
    for name, what, env, tmp, p, t0 in procs:
        text = p.communicate()[0]
        summary = {"pass": name, "configuration": what, "environment": env, "shards": "every %d-th shard of the plan" % LIGHT_FRACTION,
                   "exit": p.returncode, "wall_s": round(time.time() - t0, 1)}
        try:
            files = [f for f in os.listdir(tmp) if f.endswith(".json")]
            ev = json.load(open(os.path.join(tmp, files[0])))
            c = ev.get("coverage", {})
            summary.update({"states": c.get("states"), "transitions": c.get("transitions"), "validated": c.get("traces_validated_against_impl"),
                            "violations": ev.get("violations")})
        except Exception:                                    # noqa: BLE001
            pass
        import shutil
        shutil.rmtree(tmp, ignore_errors=True)
        for line in text.splitlines():
            if line.startswith(("VIOLATION", "UNCONFIRMED", "HARNESS", "Traceback")) or (line.startswith("  ") and p.returncode == 1):
                print(("[configuration %s] " % name if not line.startswith("VIOLATION") else "") + line)
        if p.returncode == 1:
            rc = 1
        elif p.returncode != 0 and rc == 0:
            rc = 2
            print(text[-1500:])
        out.append(summary)
    return rc, out


def confirm(mod, case):
    """second execution of a recorded case: alone first - in a forked child, so that the attempt leaves nothing behind in this
    process - and, if that does not reproduce it, together with the history of the worker process that found it"""
    from . import par
    try:
        again = par.in_forked_child(lambda: mod.replay(case))
    except Exception:                                        # noqa: BLE001
        traceback.print_exc()
        again = None
    if again:
        return again
    try:
        again = par.in_forked_child(lambda: par.replay_history(case))
    except Exception:                                        # noqa: BLE001
        traceback.print_exc()
        again = None
    if again:
        case["explanation"] = "%s [%s]" % (case.get("explanation"), again)
    return again


def main(argv=None):
    ap = argparse.ArgumentParser(prog="check")
    ap.add_argument("prop")
    ap.add_argument("--tier", default=os.environ.get("VERIF_TIER", "quick"), choices=["quick", "thorough"])
    ap.add_argument("--replay")
    ap.add_argument("--jobs", type=int, default=None)
    ap.add_argument("--seed", type=int, default=None)
    args = ap.parse_args(argv)
    prop = args.prop.upper()
    if prop not in PROPS:
        print("unknown property %s" % prop)
        return 2
    try:
        seed = args.seed if args.seed is not None else int(os.environ.get("VERIF_SEED", "0") or 0)
    except ValueError:
        seed = 0
    t0 = time.time()
    try:
        from . import par
        mod = importlib.import_module("mc.props." + prop.lower())
        if args.replay:
            need = replay_environment(args.replay)
            if any(os.environ.get(k) != v for k, v in need.items()):
                # recorded by a configuration pass: replay under the same interpreter configuration
                import subprocess
                e = dict(os.environ, VERIF_CONFIG_PASS="replay", **need)
                return subprocess.run([sys.executable, "-m", "mc.cli", prop, "--replay", args.replay], cwd=HERE, env=e).returncode
            p2, case = read_replay(args.replay)
            if p2 != prop:
                print("replay file is for %s" % p2)
                return 2
            v = confirm(mod, case)
            if v:
                print("replayed: still violates - %s" % v)
                print("VIOLATION property=%s replay=%s" % (prop, args.replay))
                return 1
            print("replayed: no violation on the current tree")
            return 0
        ctx = Ctx(prop, args.tier, seed, args.jobs or par.default_jobs())
        try:
            report = mod.run(ctx)
        except par.GuardError as e:
            if not par.LIGHT:
                raise
            # a light configuration pass explores a fraction of the shards: count and vacuity guards do not apply to it
            print("configuration pass: guard not applicable to a partial run (%s)" % e)
            report = {"coverage": {"exhaustive": False}, "violations": []}
    except Exception:                                        # noqa: BLE001
        print("HARNESS-ERROR property=%s" % prop)
        traceback.print_exc()
        return 2

    violations = report.get("violations", [])
    known = report.get("known", {})
    open_ids = load_known()
    # findings observed but not listed in the committed file are violations like any other
    for kf_id, info in sorted(known.items()):
        if kf_id in open_ids and prop in open_ids[kf_id]:
            print("KNOWN-FINDING: property=%s id=%s %s (instances in this run: %d)"
                  % (prop, kf_id, info.get("what", ""), info.get("count", 0)))
        else:
            violations = violations + info.get("cases", [])

    printed = 0
    seen_classes = set()
    harness_error = False
    for case in violations:
        klass = case.get("klass", "")
        if klass in seen_classes:
            continue
        seen_classes.add(klass)
        if printed >= MAX_PRINT:
            continue
        again = confirm(mod, case)
        if not again:
            # e.g. a violation that depends on what the exploring process had executed before; it is reported, but
            # never as a VIOLATION line, and it only decides the exit status if nothing else could be confirmed
            print("UNCONFIRMED property=%s: a violation of class %r did not reproduce on replay: %r"
                  % (prop, klass, case.get("explanation")))
            harness_error = True
            continue
        path = write_replay(prop, case)
        print("  %s" % case.get("explanation"))
        print("VIOLATION property=%s replay=%s" % (prop, path))
        printed += 1

    cov = report.get("coverage", {})
    cov.setdefault("exhaustive", True)
    pass_rc = 0
    if not os.environ.get("VERIF_CONFIG_PASS") and not os.environ.get("VERIF_NO_CONFIG_PASSES"):
        pass_rc, cov["configuration_passes"] = configuration_passes(prop, args.tier, seed, ctx.jobs)
    evidence = {"property_id": prop, "tier": args.tier, "seed": seed, "level": "model_checking",
                "coverage": cov, "assumptions": report.get("assumptions", []),
                "wall_s": round(time.time() - t0, 2), "violations": len(violations),
                "violation_classes": sorted(seen_classes),
                "known_findings_observed": {k: v.get("count", 0) for k, v in known.items()},
                "repo": os.environ.get("CR_VERIF_REPO", "/repo"), "jobs": ctx.jobs}
    # evidence always goes next to this script, also when a scratch tree is checked (self-test): then to a side file
    evdir = os.path.join(HERE, "evidence")
    os.makedirs(evdir, exist_ok=True)
    name = prop + ".json" if os.environ.get("CR_VERIF_REPO", "/repo") == "/repo" else prop + ".scratch.json"
    if os.environ.get("CR_VERIF_EVIDENCE_DIR"):
        evdir = os.environ["CR_VERIF_EVIDENCE_DIR"]
        os.makedirs(evdir, exist_ok=True)
    with open(os.path.join(evdir, name), "w") as f:
        json.dump(evidence, f, indent=1, default=str)
        f.write("\n")
    print("%s %s: states=%s transitions=%s validated=%s nontrivial=%s exhaustive=%s wall=%.1fs violations=%d"
          % (prop, args.tier, cov.get("states"), cov.get("transitions"), cov.get("traces_validated_against_impl"),
             cov.get("distinct_nontrivial"), cov.get("exhaustive"), time.time() - t0, len(violations)))
    if printed or pass_rc == 1:
        return 1
    if pass_rc == 2:
        print("HARNESS-ERROR property=%s: a configuration pass failed" % prop)
        return 2
    if harness_error:
        print("HARNESS-ERROR property=%s: violations were found but none could be confirmed by replay" % prop)
        return 2
    return 0


if __name__ == "__main__":
    sys.exit(main())
