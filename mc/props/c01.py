"""C01 - reported reachability probabilities are the max-min game values."""
from .. import par, sweep

PROP = "C01"
RULE = ("every structure of the listed universes is a distinct case (explicit product, no repetition); solved in both pruning "
        "modes and through the Solver seam (also with thresholds 1e-2, 1e-3, 1e-9 where listed); non-trivial = some non-final "
        "state has an exact value strictly between 0 and 1 and lies on a cycle among positive-value states, i.e. its value is "
        "only reached in the limit of the iteration")
ASSUME = ["exact max-min values by brute-force enumeration of pure memoryless strategy pairs over Fractions",
          "tolerance: threshold*(1+A(G)) + 1e-12 with A(G) computed exactly per game (DESIGN 1.5); never above the exact value (1e-12 float slack)",
          "solve() on non-stopping structures is observed only if it returns within 0.05 s CPU; such games are always observed through the "
          "check_game -> init_states -> Solver.solve_reachability seam",
          "probability literals denote decimal rationals"]


def plan(ctx):
    from ._plans import all_games_plan
    return all_games_plan(PROP, ctx, thresholds=True)


def _vacuity(tot):
    if tot["nontrivial"] < 10:
        raise par.GuardError("C01 vacuity guard: %d games with a limit-only value" % tot["nontrivial"])


def run(ctx):
    from .. import oracle_selftest
    st = oracle_selftest.run(ctx)
    rep = sweep.run_plan(ctx, PROP, plan(ctx), RULE, ASSUME, vacuity=_vacuity)
    rep["coverage"]["reference_solver_self_check"] = st
    from . import boards_c01
    boards_c01.extend(ctx, rep)
    return rep


def replay(case):
    if case.get("kind") == "board":
        from . import boards_c01
        return boards_c01.replay(case)
    return sweep.replay_game(PROP, case)
