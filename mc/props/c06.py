"""C06 - every well-formed stopping game is solved or declared unsolvable."""
from .. import par, sweep
from ._plans import stopping_plan

PROP = "C06"
RULE = ("every stopping game (structure x reward vector) of the listed universes x both pruning modes is a distinct case; the outcome "
        "class of the real solve() is compared with the exact prediction (no-solution error iff pruning and exact value of state 0 "
        "is 0, otherwise a complete 8-tuple); non-trivial = the initial state has exact value 0 or some Player-1/probabilistic "
        "state has >= 2 zero-probability successors")
ASSUME = ["stopping decided exactly on the graph (finals absorbing, absorbing states reward 0, no end component among non-absorbing states)",
          "termination = within 1e6 executed source lines, confirmed deterministically after a 1 s CPU-time trigger (legitimate solves of these games need < 2e5 lines)"]


def _vacuity(tot):
    if tot["outcomes"].get("nosol", 0) < 10 or tot["nontrivial"] < 10:
        raise par.GuardError("C06 vacuity guard: %r" % tot["outcomes"])


KF = {"KF-C06-2": "with pruning on, solve() never terminates on a stopping game in which a Player-1 action is worse than the best one by less than the "
                  "6-digit rounding can see (e.g. 0.49999995 against 0.5) and leads back through a state whose only other exit is dead: both actions are "
                  "kept, pruning removes the exit and closes a cycle with a positive reward",
      "KF-C06-1": "with pruning on, a game whose initial state has a positive reachability value not larger than the convergence tolerance can be "
                  "declared to have no solution: the iteration stops (largest change <= 1e-6) before the value reaches state 0, which still reports 0 "
                  "(e.g. [[(1,1)], [(4e-07,3),(0.9999996,2)], [(1,2)], [(1,3)]], final [3])"}


def run(ctx):
    return sweep.run_plan(ctx, PROP, stopping_plan(PROP, ctx, with_t3=True), RULE, ASSUME, kf_what=KF, vacuity=_vacuity)


def replay(case):
    return sweep.replay_game(PROP, case)
