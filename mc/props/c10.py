"""C10 - solving leaves the game description intact and is repeatable (explicit-state exploration of solve histories)."""
import collections
import copy
import os
import pickle
import types

from .. import budget, judge as J, par, sweep
from ..repo import tad, reverse_dfs, conditionalrewards, NOSOL

PROP = "C10"
OPS = ("same-object/prune", "same-object/no-prune", "fresh-object/prune", "fresh-object/no-prune",
       "component/validate", "component/count",
       "debuglog-fresh-object/prune", "debuglog-fresh-object/no-prune",
       "batch/run_games", "foreign/finals", "foreign/regroup", "foreign/owners")      # foreign/*: both modes of a DIFFERENT description derived from this one are solved in between (the same graph with another final state; the same concatenated successors grouped differently into rows; the same rows with other owners); batch/run_games: conditionalrewards.run_games on a one-entry dictionary holding the caller's description itself; component/*: check_game + init_states, count_transitions on the persistent object; debuglog-*: the solve runs with the
# root logger at DEBUG level (the tool's -l d option) - a configuration that must not change any result
BASIC_SOLVES = OPS[:4]
CPU = 0.3


def canon(x, depth=0):
    """canonical, hashable deep snapshot: values, types and list lengths"""
    if depth > 8:
        return ("deep", type(x).__name__)
    if isinstance(x, (str, int, float, bool, type(None))):
        return (type(x).__name__, repr(x))
    if isinstance(x, list):
        return ("list",) + tuple(canon(y, depth + 1) for y in x)
    if isinstance(x, tuple):
        return ("tuple",) + tuple(canon(y, depth + 1) for y in x)
    if isinstance(x, dict):
        return ("dict",) + tuple(sorted((repr(k), canon(v, depth + 1)) for k, v in x.items()))
    if isinstance(x, (set, frozenset)):
        return ("set",) + tuple(sorted(repr(canon(y, depth + 1)) for y in x))
    if hasattr(x, "__dict__") and not isinstance(x, (type, types.ModuleType, types.FunctionType)):
        return ("obj", type(x).__name__, canon(vars(x), depth + 1))
    return ("other", type(x).__name__)


def module_state():
    """non-callable module globals, class attributes and the default-argument tuples of functions and methods of tad, reverse_dfs and
    conditionalrewards (the places where state can survive a call)"""
    out = []
    for mod in (tad, reverse_dfs, conditionalrewards):
        for name, val in sorted(vars(mod).items()):
            if name.startswith("__") or isinstance(val, types.ModuleType):
                continue
            if isinstance(val, types.FunctionType):
                if val.__defaults__:
                    out.append((mod.__name__, name, "defaults", canon(val.__defaults__)))
                continue
            if isinstance(val, type):
                if val.__module__ != mod.__name__:
                    continue
                for an, av in sorted(vars(val).items()):
                    if an.startswith("__"):
                        continue
                    if isinstance(av, types.FunctionType):
                        if av.__defaults__:
                            out.append((mod.__name__, name, an, "defaults", canon(av.__defaults__)))
                    elif not callable(av) and not isinstance(av, (staticmethod, classmethod, property)):
                        out.append((mod.__name__, name, an, canon(av)))
                continue
            if callable(val):
                continue
            out.append((mod.__name__, name, canon(val)))
    return tuple(out)


def outcome_of(fn):
    st, val = budget.run_budgeted(fn, cpu_s=CPU, confirm=False)
    if st == "ok":
        return ("ok", val)
    if st == "timeout":
        return ("timeout", None)
    return ("exc", "%s: %s" % (type(val).__name__, val))


def foreign_games(pristine):
    """different well-formed descriptions that coincide with this one in an aspect a too coarse memo key might use"""
    n = len(pristine["players"])
    tl = pristine["transition_list"]
    out = {}
    absorbing = [s for s in range(n) if pristine["players"][s] == "Probabilistic" and len(tl[s]) == 1 and tl[s][0][1] == s]
    other = [s for s in absorbing if s not in pristine["final_states"]]
    if other:
        out["finals"] = dict(copy.deepcopy(pristine), final_states=[other[0]])
    # regroup: the last action of a player state moves to the front of the next state's row, if that is a player state too
    for s in range(n - 1):
        if pristine["players"][s] != "Probabilistic" and pristine["players"][s + 1] != "Probabilistic" and len(tl[s]) >= 2:
            g = copy.deepcopy(pristine)
            moved = g["transition_list"][s].pop()
            g["transition_list"][s + 1].insert(0, ("moved", moved[1]))
            out["regroup"] = g
            break
    swap = {"Player 1": "Player 2", "Player 2": "Player 1"}
    if any(p in swap for p in pristine["players"]):
        out["owners"] = dict(copy.deepcopy(pristine), players=[swap.get(p, p) for p in pristine["players"]])
    return out


class World:
    """the caller's description plus one persistent StochasticGame object built on it"""

    def __init__(self, pristine):
        self.desc = copy.deepcopy(pristine)
        self.sg = tad.StochasticGame(**self.desc)
        self.foreign = foreign_games(pristine)

    def apply(self, op):
        where, mode = op.split("/")
        if where == "foreign":
            g = self.foreign.get(mode)
            if g is None:
                return ("skip",)
            for prune in (True, False):
                outcome_of(lambda: tad.StochasticGame(prune_states=prune, **copy.deepcopy(g)).solve())
            return ("foreign",)
        if where == "batch":
            def fn():
                res = conditionalrewards.run_games({"x": self.desc})
                return {k: {f: v for f, v in e.items() if f != "total_time"} for k, e in res.items()}
            return ("batch",) + outcome_of(fn)
        if where == "component":
            if mode == "validate":
                def fn():
                    self.sg.check_game()
                    return len(self.sg.init_states())
                return ("aux",) + outcome_of(fn)[1:]
            return ("aux",) + outcome_of(self.sg.count_transitions)[1:]
        prune = mode == "prune"
        if where == "debuglog-fresh-object":
            import logging
            root = logging.getLogger()
            if not any(isinstance(h, logging.NullHandler) for h in root.handlers):
                root.addHandler(logging.NullHandler())
            old_level = root.level
            logging.disable(logging.NOTSET)
            root.setLevel(logging.DEBUG)
            try:
                return outcome_of(lambda: tad.StochasticGame(prune_states=prune, **self.desc).solve())
            finally:
                root.setLevel(old_level)
                logging.disable(logging.CRITICAL)
        if where == "same-object":
            self.sg.prune_states = prune
            return outcome_of(self.sg.solve)
        return outcome_of(lambda: tad.StochasticGame(prune_states=prune, **self.desc).solve())

    def state(self):
        return (canon(self.desc), canon(vars(self.sg)), module_state())


def reference_in_fresh_process(pristine):
    """both modes solved on a deep copy in a forked child (no state shared with the exploring process afterwards)"""
    r, w = os.pipe()
    pid = os.fork()
    if pid == 0:
        try:
            os.close(r)
            out = {}
            for prune in (True, False):
                g = copy.deepcopy(pristine)
                out[prune] = outcome_of(lambda: tad.StochasticGame(prune_states=prune, **g).solve())
            with os.fdopen(w, "wb") as f:
                pickle.dump(out, f)
        finally:
            os._exit(0)
    os.close(w)
    with os.fdopen(r, "rb") as f:
        data = f.read()
    os.waitpid(pid, 0)
    return pickle.loads(data)


BATCH_FIELDS = ("final_strategies", "reachability_strategies", "rewards", "probabilities", "n_iterations_reach", "n_iterations_rew",
                "prob_min_rew", "rew_min_reach")      # the order of the tuple returned by StochasticGame.solve()


def batch_differs(res, ref):
    """res = ("batch", status, value) of one run_games call; ref = the per-mode solo outcomes; returns an explanation or None"""
    _, st, val = res
    if st == "timeout" or "timeout" in (ref[True][0], ref[False][0]):
        return None
    if st != "ok":
        if ref[True][0] == "exc" and not ref[True][1].startswith("ValueError"):
            return None          # the solo solve raises something run_games does not catch either
        if ref[True][0] == "ok" and ref[False][0] == "exc" and not ref[False][1].startswith("ValueError"):
            return None
        return "the batch run raised %s" % (val,)
    if sorted(val) != ["x", "x_no_prune"]:
        return "entries %r instead of x and x_no_prune" % (sorted(val),)
    for prune, name in ((True, "x"), (False, "x_no_prune")):
        e = val[name]
        if ref[prune][0] == "ok" and (prune or ref[True][0] == "ok"):
            got = tuple(e[f] for f in BATCH_FIELDS)
            if e["msg"] != "Game solved" or got != tuple(ref[prune][1]):
                return "entry %s = %r / %r, solving alone gives %r" % (name, e["msg"], got, ref[prune][1])
        elif prune and ref[True][0] == "exc" and ref[True][1].startswith("ValueError: "):
            want = "Error while solving the game: " + ref[True][1][len("ValueError: "):]
            if e["msg"] != want:
                return "entry %s carries %r, expected %r" % (name, e["msg"], want)
        elif not prune and ref[True][0] == "exc":
            if e["msg"] != "Game not solved":
                return "entry %s carries %r, expected 'Game not solved'" % (name, e["msg"])
    return None


def explore(pristine, depth):
    """BFS over histories with de-duplication of canonical states; returns (findings, states, transitions, closed)"""
    ref = reference_in_fresh_process(pristine)
    if "timeout" in (ref[True][0], ref[False][0]):
        return None, 0, 0, False
    pc = canon(pristine)
    findings = []
    w0 = World(pristine)
    seen = {w0.state()}
    frontier = collections.deque([()])
    transitions = 0
    closed = True
    forced = set()
    while frontier:
        hist = frontier.popleft()
        for op in (BASIC_SOLVES if hist in forced else OPS):
            w = World(pristine)
            for h in hist:
                w.apply(h)
            res = w.apply(op)
            transitions += 1
            prune = op.endswith("/prune")
            if canon(w.desc) != pc:
                findings.append(("C10/description-mutated", repr(w.desc)[:600], repr(pristine)[:600],
                                 "after the solve history %s the caller's description differs from what was passed in"
                                 % (list(hist) + [op],), list(hist) + [op]))
                return findings, len(seen), transitions, False
            if res[0] == "timeout" or res[:2] == ("batch", "timeout") or res[0] == "skip":
                continue
            if res[0] == "foreign":
                pass            # nothing to compare: the solves that follow must still equal the reference
            elif res[0] == "batch":
                why = batch_differs(res, ref)
                if why:
                    findings.append(("C10/batch-result-differs", repr(res[1:])[:600], repr(ref)[:600],
                                     "after the history %s, run_games on the same description: %s" % (list(hist), why), list(hist) + [op]))
                    return findings, len(seen), transitions, False
            elif res[0] == "aux":
                want = len(pristine["players"]) if op.endswith("validate") else sum(len(r) for r in pristine["transition_list"])
                if res[1] != want:
                    findings.append(("C10/component-result-differs", repr(res[1]), repr(want),
                                     "after the history %s, %s returned %r instead of %r" % (list(hist), op, res[1], want), list(hist) + [op]))
                    return findings, len(seen), transitions, False
            elif res != ref[prune]:
                findings.append(("C10/result-differs", repr(res)[:600], repr(ref[prune])[:600],
                                 "the last solve of the history %s returned a result different from solving the same description "
                                 "once in a fresh process" % (list(hist) + [op],), list(hist) + [op]))
                return findings, len(seen), transitions, False
            k = w.state()
            if k not in seen:
                seen.add(k)
                if len(hist) + 1 < depth:
                    frontier.append(hist + (op,))
                else:
                    closed = False
            elif res[0] == "foreign" and not hist:
                # the observable state did not change, but state may hide where the snapshot does not look (closures, C-level caches):
                # the four basic solves are explored after every foreign description anyway
                forced.add(hist + (op,))
                frontier.append(hist + (op,))
    return findings, len(seen), transitions, closed


def mk_case(game, finding):
    klass, obs, exp, expl, hist = finding
    return {"kind": "history", "klass": klass, "input": game, "config": {"history": hist},
            "observed": obs, "expected": exp, "explanation": expl}


def work(shard):
    out = {"games": 0, "states": 0, "transitions": 0, "closed": 0, "skipped": 0, "violations": [], "n_violations": 0,
           "nontrivial": 0, "samples": [], "max_states_per_game": 0}
    if shard["kind"] == "universe":
        Un = sweep.universe(shard["universe"])
        if shard.get("finals") == "descending-with-repeat":
            # several final states listed in descending order with one repeated (solving must not reorder or de-duplicate them)
            it = (J.SCache(p, t, (sorted(f, reverse=True) + [min(f)]) if len(f) > 1 else f)
                  for p, t, f in Un.structures(shard["lo"], shard["hi"], shard.get("stride", 1), shard.get("offset", 0)))
        else:
            it = (J.SCache(p, t, f) for p, t, f in Un.structures(shard["lo"], shard["hi"]))
    else:
        fam = sweep.family_slice(shard)
        it = (J.SCache(g["players"], g["transition_list"], g["final_states"]) for g in fam[shard["lo"]:shard["hi"]])
        rews = [g["rewards"] for g in fam[shard["lo"]:shard["hi"]]]
    for i, sc in enumerate(it):
        if shard["kind"] == "universe":
            if not sc.stopping and shard.get("finals"):
                # non-absorbing / player-owned finals: not a stopping game, so it is explored with zero rewards and only if
                # the reference solves return (explore() skips the game otherwise)
                game = sc.game([0] * sc.n)
                f, ns, nt, closed = explore(game, shard["depth"])
                if f is None:
                    out["skipped"] += 1
                    continue
                out["games"] += 1
                out["states"] += ns
                out["transitions"] += nt
                out["closed"] += 1 if closed else 0
                out["nonstopping_games"] = out.get("nonstopping_games", 0) + 1
                for x in f:
                    out["n_violations"] += 1
                    if len([c for c in out["violations"] if c["klass"] == x[0]]) < 2:
                        out["violations"].append(mk_case(game, x))
                if out["n_violations"] >= 6:
                    out["truncated"] = 1
                    break
                continue
            if not sc.stopping:
                out["skipped"] += 1
                continue
            nonabs = [s for s in range(sc.n) if s not in sc.absorbing]
            rewards = [0] * sc.n
            for k, s in enumerate(nonabs):
                rewards[s] = 1 + (k % 2)
        else:
            rewards = rews[i]
            if not (sc.stopping and all(rewards[s] == 0 for s in sc.absorbing)):
                out["skipped"] += 1
                continue
        game = sc.game(rewards)
        f, ns, nt, closed = explore(game, shard["depth"])
        if f is None:
            out["skipped"] += 1
            continue
        out["games"] += 1
        out["states"] += ns
        out["transitions"] += nt
        out["closed"] += 1 if closed else 0
        out["max_states_per_game"] = max(out["max_states_per_game"], ns)
        if sweep._multi_dead(sc) or any(sc.vstar[t] == 0 for s in range(sc.n) if sc.vstar[s] > 0 for _, t in sc.tl[s]):
            out["nontrivial"] += 1
        for x in f:
            out["n_violations"] += 1
            if len([c for c in out["violations"] if c["klass"] == x[0]]) < 2:
                out["violations"].append(mk_case(game, x))
        if not out["samples"] and out["games"] % 37 == 1:
            out["samples"].append({"game": game, "operations": list(OPS), "states": ns, "transitions": nt, "closed": closed})
        if out["n_violations"] >= 6:
            out["truncated"] = 1
            break
    return out


RULE = ("for every stopping game of the listed universes: breadth-first exploration of all histories over the 12 operations (three of them solve, in between, a different description derived from this one - another final state, successors regrouped into other rows, owners swapped - and nine act on the description itself: {same object, fresh "
        "object} x {pruned, unpruned} solves, check_game+init_states and count_transitions on the persistent object, fresh-object solves with the root logger at DEBUG level, and conditionalrewards.run_games on a one-entry dictionary holding the description itself, whose two entries must equal the solo results) on ONE caller-owned description, states = canonical deep snapshot of (description, persistent object's "
        "attributes, non-callable module globals of tad and reverse_dfs), de-duplicated; depth bound per tier; after every operation the "
        "description must equal the pristine copy and the result must equal (==) the result of that mode computed once in a forked fresh "
        "process; 'closed' = no unexplored state remained at the depth bound, so the claim extends to histories of any length; "
        "non-trivial = the game has a zero-probability branch below a positive-value state (something pruning removes)")
ASSUME = ["reference results come from a forked child process per game (differential oracle, no hand-written values)",
          "solves that do not return within the alarm are skipped (termination is C06's verdict)"]


def run(ctx):
    j = ctx.jobs
    depth = 4 if ctx.thorough else 3
    shards, spaces = [], []

    def uni(name, frac=None):
        Un = sweep.universe(name)
        lo, hi = 0, Un.size
        if frac:
            block = -(-Un.size // frac)
            b = ctx.seed % frac
            lo, hi = b * block, min(Un.size, (b + 1) * block)
        for a, b in par.ranges(hi - lo, j * 4):
            shards.append({"kind": "universe", "universe": name, "lo": lo + a, "hi": lo + b, "depth": depth})
        spaces.append({"universe": name, "size": Un.size, "explored_indices": [lo, hi]})

    def fam(name, **kw):
        size = sweep.family_size(name, **kw)
        for a, b in par.ranges(size, j * 4):
            sh = {"kind": "games", "family": name, "lo": a, "hi": b, "depth": depth}
            sh.update(kw)
            shards.append(sh)
        spaces.append(dict({"universe": name, "size": size}, **kw))

    if ctx.thorough:
        uni("U-S2")
        fam("U-F", max_deg=4)
    else:
        uni("U-S2d2")
        fam("U-F", max_deg=3)
    fam("U-X")
    fam("U-E")
    fam("U-MF")         # 40 - 130 final states in ascending, descending, interleaved order and with a repeated entry
    # U-T3 (several finals) with the finals written in descending order and one repeated
    Un = sweep.universe("U-T3")
    stride = 8 if ctx.thorough else 160
    for a, b in par.ranges(Un.size, j * 4):
        shards.append({"kind": "universe", "universe": "U-T3", "lo": a, "hi": b, "depth": depth, "finals": "descending-with-repeat",
                       "stride": stride, "offset": ctx.seed % stride})
    spaces.append({"universe": "U-T3", "size": Un.size, "fraction": "every %d-th structure" % stride, "finals": "descending order, one repeated"})
    tot = par.run_shards(work, shards, ctx.jobs)
    if not tot.get("violations") and (tot["nontrivial"] < 10 or tot["games"] < 100):
        raise par.GuardError("C10 vacuity guard")
    cov = {"states": tot["states"], "transitions": tot["transitions"], "traces_validated_against_impl": tot["transitions"],
           "evaluations": tot["games"], "distinct_nontrivial": tot["nontrivial"], "games": tot["games"],
           "games_whose_state_graph_closed": tot["closed"], "max_states_per_game": tot["max_states_per_game"],
           "depth_bound": depth, "operations": list(OPS), "skipped_non_stopping_or_unreturned": tot["skipped"], "non_stopping_games_with_zero_rewards": tot.get("nonstopping_games", 0),
           "rule": RULE, "universes": spaces, "exhaustive": not tot.get("truncated"), "samples": tot["samples"][:4]}
    return {"coverage": cov, "violations": tot["violations"], "assumptions": ASSUME}


def replay(case):
    game = case["input"]
    game = dict(game, transition_list=[[tuple(t) for t in row] for row in game["transition_list"]])
    hist = case["config"]["history"]
    ref = reference_in_fresh_process(game)
    w = World(game)
    res = None
    for op in hist:
        res = w.apply(op)
    if canon(w.desc) != canon(game):
        return "description mutated after %s: %r" % (hist, w.desc)
    prune = hist[-1].endswith("/prune")
    if res[0] == "batch":
        return batch_differs(res, ref)
    if res[0] == "aux":
        want = len(game["players"]) if hist[-1].endswith("validate") else sum(len(r) for r in game["transition_list"])
        return None if res[1] == want else "component call returned %r instead of %r" % (res[1], want)
    if res[0] != "timeout" and res != ref[prune]:
        return "result differs after %s" % (hist,)
    return None
