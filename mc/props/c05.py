"""C05 - final strategies are reward-optimal among reachability-optimal actions."""
from .. import par, sweep
from ._plans import stopping_plan

PROP = "C05"
RULE = ("inclusion (final strategy subset of reachability strategy at every Player-1 state) on every game that returns, stopping or not; "
        "exact reward-optimal permitted action lists at every player state reachable in the conditioned game on stopping games "
        "(acyclic: any ties; cyclic: competing exact values both 0 or separated by more than the tolerance); non-trivial = some "
        "Player-1 state whose final strategy is a strict subset of its reachability strategy (the reward objective discriminates)")
ASSUME = ["exact conditioned rewards from the reference solver; scope test evaluated exactly"]


def plan(ctx):
    P = stopping_plan(PROP, ctx)
    j = ctx.jobs
    # inclusion also on non-stopping structures (zero rewards)
    if ctx.thorough:
        P.append(sweep.universe_shards(PROP, "U-T3", j))
    else:
        P.append(sweep.universe_shards(PROP, "U-T3", j, frac=32, seed=ctx.seed))
    return P


def _vacuity(tot):
    if tot["nontrivial"] < 10 or tot.get("exact_states_judged", 0) < 100:
        raise par.GuardError("C05 vacuity guard: %d %d" % (tot["nontrivial"], tot.get("exact_states_judged", 0)))


def _board_work(shard):
    from . import boards_c02
    from .. import run as Rn
    from ..repo import P1
    out = {"n": 0, "judged": 0, "violations": []}
    for lab, inp, g in boards_c02._items(shard):
        for prune in (True, False):
            o = Rn.solve(g, prune, cpu_s=shard[2], confirm=False)
            out["n"] += 1
            if o.kind != "ok":
                continue
            out["judged"] += 1
            fs, rs = o.result[0], o.result[1]
            for s_, who in enumerate(g["players"]):
                if who == P1 and not (isinstance(fs[s_], list) and isinstance(rs[s_], list) and set(fs[s_]) <= set(rs[s_])):
                    out["violations"].append({"kind": "board", "klass": "C05/board-not-subset", "input": inp, "config": {"prune": prune, "cpu_s": shard[2]},
                                              "observed": fs[s_], "expected": rs[s_],
                                              "explanation": "%s prune=%s: Player 1 state %d has final strategy %r outside its reachability strategy %r" % (lab, prune, s_, fs[s_], rs[s_])})
                    break
    return out


KF = {"KF-C04-1": "reward analogue: an exact tie between conditioned expected rewards is lost because round(x, 6) separates the two floating-point "
                  "evaluations (values on a rounding boundary such as 0.0000225, or rewards of 1e10 whose float error exceeds 1e-6)"}


def run(ctx):
    from .. import boards
    from ..inputs import board_games
    rep = sweep.run_plan(ctx, PROP, plan(ctx), RULE, ASSUME, kf_what=KF, vacuity=_vacuity)
    cpu = 60.0 if ctx.thorough else 3.0
    shards = [("file", (f, nme), cpu) for f, nme, g in board_games(4100 if ctx.thorough else 260)]
    shards += [("gen", b, cpu) for b in boards.board_list(ctx.thorough, ctx.seed)]
    tot = par.run_shards(_board_work, shards, ctx.jobs)
    rep["violations"].extend(tot.get("violations", []))
    rep["coverage"]["transitions"] += tot["n"]
    rep["coverage"]["board_runs_judged_for_inclusion"] = tot["judged"]
    rep["coverage"]["traces_validated_against_impl"] += tot["judged"]
    return rep


def replay(case):
    if case.get("kind") == "board":
        from . import boards_c02
        from .. import run as Rn
        from ..repo import P1
        inp = case["input"]
        shard = ("gen", tuple(inp["generated"][:4]) + (tuple(inp["generated"][4]),), 60.0) if "generated" in inp else ("file", (inp["file"], inp["game"]), 60.0)
        for lab, i2, g in boards_c02._items(shard):
            if i2.get("game") != inp["game"]:
                continue
            o = Rn.solve(g, case["config"]["prune"], cpu_s=60.0, confirm=False)
            if o.kind == "ok":
                fs, rs = o.result[0], o.result[1]
                for s_, who in enumerate(g["players"]):
                    if who == P1 and not set(fs[s_]) <= set(rs[s_]):
                        return "state %d: %r not within %r" % (s_, fs[s_], rs[s_])
        return None
    return sweep.replay_game(PROP, case)
