"""C05 - final strategies are reward-optimal among reachability-optimal actions."""
from .. import par, sweep
from ._plans import stopping_plan

PROP = "C05"
RULE = ("inclusion (final strategy subset of reachability strategy at every Player-1 state) on every game that returns, stopping or not; "
        "exact reward-optimal permitted action lists at every player state reachable in the conditioned game on stopping games "
        "(acyclic: any ties; cyclic: competing exact values both 0 or separated by more than the tolerance); non-trivial = some "
        "Player-1 state whose final strategy is a strict subset of its reachability strategy (the reward objective discriminates)")
ASSUME = ["exact conditioned rewards from the reference solver; scope test evaluated exactly"]


def plan(ctx):
    P = stopping_plan(PROP, ctx)
    j = ctx.jobs
    # inclusion also on non-stopping structures (zero rewards)
    if ctx.thorough:
        P.append(sweep.universe_shards(PROP, "U-T3", j))
    else:
        P.append(sweep.universe_shards(PROP, "U-T3", j, frac=32, seed=ctx.seed))
    return P


def _vacuity(tot):
    if tot["nontrivial"] < 10 or tot.get("exact_states_judged", 0) < 100:
        raise par.HarnessError("C05 vacuity guard: %d %d" % (tot["nontrivial"], tot.get("exact_states_judged", 0)))


def run(ctx):
    return sweep.run_plan(ctx, PROP, plan(ctx), RULE, ASSUME, vacuity=_vacuity)


def replay(case):
    return sweep.replay_game(PROP, case)
