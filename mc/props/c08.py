"""C08 - generated games encode the Roborta board rules faithfully (explicit-state bisimulation check)."""
import itertools
import os
import shutil
import tempfile

from .. import par, roborta as RB
from ..repo import roberta_generator as G, conditionalrewards as CR, stochastic_game_from_roborta_board as SG
from ..universe import Product

PROP = "C08"
TRIPLES = [(0.1, 0.05, 0.25), (0.5, 0.3, 0.2), (0.125, 0.0371, 0.333), (0.3, 0.5, 0.5)]     # robot, light, tile break probabilities (first two pairwise distinct; the third not whole percentages; the fourth has p == 1 - p for light and tile)
VARIANTS = (("A", "game_a"), ("B", "game_b"), ("C", "game_c"))


def shapes(tiles):
    return [(L, tiles // L) for L in range(1, tiles + 1) if tiles % L == 0]


def tile_alphabet(rewset):
    return [(m, r, lo) for m in range(4) for r in rewset for lo in (0, 1)]


def decode(L, W, combo):
    moves = [[combo[i * W + j][0] for j in range(W)] for i in range(L)]
    rew = [[combo[i * W + j][1] for j in range(W)] for i in range(L)]
    loose = [[combo[i * W + j][2] for j in range(W)] for i in range(L)]
    return moves, rew, loose


def generated(tmp, L, W, moves, rew, loose, triple, manual=False):
    p_rb, p_lb, p_tb = triple
    if manual:
        cwd = os.getcwd()
        os.chdir(tmp)
        try:
            for f in os.listdir("inputs"):
                os.remove(os.path.join("inputs", f))
            SG.create_sg_from_board(moves, rew, loose, p_rb, p_lb, p_tb)
            files = os.listdir("inputs")
            if len(files) != 1:
                return None
            return CR.read_dict_from_file(os.path.join("inputs", files[0]))
        finally:
            os.chdir(cwd)
    path = os.path.join(tmp, "inputs", "x.py")
    G.write_robots(path, L, W, moves, rew, loose, p_tb, p_rb, p_lb)
    return CR.read_dict_from_file(path)


def check_board(tmp, L, W, moves, rew, loose, triple, manual=False):
    """returns (list of findings, union states, union transitions, rounds)"""
    p_rb, p_lb, p_tb = triple
    try:
        d = generated(tmp, L, W, moves, rew, loose, triple, manual)
    except Exception as e:                                   # noqa: BLE001
        return [("C08/generator-exception", "%s: %s" % (type(e).__name__, e), "ALL")], 0, 0, 0
    if not isinstance(d, dict):
        return [("C08/no-file", repr(d)[:100], "ALL")], 0, 0, 0
    res = []
    st = tr = rd = 0
    for variant, key in VARIANTS:
        if key not in d:
            res.append(("C08/missing-game", key, variant))
            continue
        gg = RB.game_graph(d[key])
        if gg is None:
            res.append(("C08/malformed-game", key, variant))
            continue
        i2, gm = RB.model(variant, moves, rew, loose, p_rb, p_lb, p_tb)
        ok, ns, nt, rounds = RB.bisimilar(gg[0], gg[1], i2, gm)
        st += ns
        tr += nt
        rd = max(rd, rounds)
        if not ok:
            res.append(("C08/not-bisimilar-game-%s" % variant, key, variant))
    return res, st, tr, rd


def mk_case(L, W, moves, rew, loose, triple, manual, finding):
    klass, obs, variant = finding
    return {"kind": "board", "klass": klass,
            "input": {"length": L, "width": W, "moves": moves, "rewards": rew, "loose_tiles": loose},
            "config": {"prob_robot_break": triple[0], "prob_light_break": triple[1], "prob_tile_break": triple[2],
                       "entry": "create_sg_from_board" if manual else "write_robots", "game": variant},
            "observed": obs, "expected": "bisimilar to the rule model from the initial state",
            "explanation": "board %dx%d moves=%s rewards=%s loose=%s probabilities (robot,light,tile)=%s via %s: game %s: %s"
                           % (L, W, moves, rew, loose, triple, "create_sg_from_board" if manual else "write_robots", variant, klass)}


def work(shard):
    out = {"boards": 0, "comparisons": 0, "states": 0, "transitions": 0, "max_rounds": 0, "violations": [],
           "n_violations": 0, "nontrivial": 0, "samples": []}
    tmp = tempfile.mkdtemp(prefix="crverif_c08_")
    os.mkdir(os.path.join(tmp, "inputs"))
    try:
        if shard["kind"] == "enum":
            L, W = shard["shape"]
            prod = Product([tile_alphabet(shard["rewset"])] * (L * W))
            it = (decode(L, W, combo) for combo in prod.iter_range(shard["lo"], shard["hi"]))
        elif shard["kind"] == "rewards":
            # reward layouts through both entry points: arrows fixed, rewards from a wider alphabet in every position
            L, W = shard["shape"]
            vals = shard["values"]
            it = []
            for combo in Product([list(vals)] * (L * W)).iter_range(shard["lo"], shard["hi"]):
                rew = [[combo[i * W + j] for j in range(W)] for i in range(L)]
                moves = [[(1 if (i + j) % 2 == 0 else 2) for j in range(W)] for i in range(L)]
                it.append((moves, rew, [[0] * W for _ in range(L)]))
        else:
            it = []
            for (w, l, seed, fd) in shard["boards"]:
                it.append(G.gen_rnd_board(seed, l, w, 0.3, 3, fd))
        prev = None
        for moves, rew, loose in it:
            L, W = len(moves), len(moves[0])
            out["boards"] += 1
            for triple in shard.get("triples", TRIPLES):
                for manual in ((False, True) if shard.get("manual") else (False,)):
                    res, st, tr, rd = check_board(tmp, L, W, moves, rew, loose, triple, manual)
                    out["comparisons"] += 3
                    out["states"] += st
                    out["transitions"] += tr
                    out["max_rounds"] = max(out["max_rounds"], rd)
                    for f in res:
                        out["n_violations"] += 1
                        if len([c for c in out["violations"] if c["klass"] == f[0]]) < 2:
                            c = mk_case(L, W, moves, rew, loose, triple, manual, f)
                            if prev is not None:
                                c["config"]["board_written_to_the_same_path_before"] = prev
                            out["violations"].append(c)
                    prev = {"length": L, "width": W, "moves": moves, "rewards": rew, "loose_tiles": loose, "triple": list(triple), "manual": manual}
            if W == 1 or any(m == 3 for row in moves for m in row) or any(x for row in loose for x in row):
                out["nontrivial"] += 1
            if not out["samples"] and out["boards"] % 101 == 1:
                out["samples"].append({"moves": moves, "rewards": rew, "loose_tiles": loose})
            if out["n_violations"] >= 8:
                out["truncated"] = 1
                break
    finally:
        shutil.rmtree(tmp, ignore_errors=True)
    return out


def plan(ctx):
    shards, spaces = [], []
    spec = [(1, (0, 1, 2), True), (2, (0, 1, 2), True), (3, (0, 1, 2), False)]
    if ctx.thorough:
        spec = [(1, (0, 1, 2), True), (2, (0, 1, 2), True), (3, (0, 1, 2), False), (4, (0, 1), False)]
    for tiles, rewset, manual in spec:
        for shape in shapes(tiles):
            size = len(tile_alphabet(rewset)) ** tiles
            spaces.append({"tiles": tiles, "shape_length_x_width": list(shape), "reward_values": list(rewset), "boards": size,
                           "entry_points": ["write_robots"] + (["create_sg_from_board"] if manual else [])})
            heavy = (not ctx.thorough) and tiles >= 3
            for lo, hi in par.ranges(size, ctx.jobs * 3 if size > 2000 else (ctx.jobs if size > 100 else 1)):
                sh = {"kind": "enum", "shape": shape, "rewset": rewset, "lo": lo, "hi": hi, "manual": manual}
                if heavy:
                    sh["triples"] = TRIPLES[:2]
                shards.append(sh)
            if heavy:
                # quick tier: the two extra probability triples on the same shapes with a single reward value
                size0 = len(tile_alphabet((0,))) ** tiles
                spaces.append({"tiles": tiles, "shape_length_x_width": list(shape), "reward_values": [0], "boards": size0,
                               "probability_triples": [list(t) for t in TRIPLES[2:]]})
                for lo, hi in par.ranges(size0, ctx.jobs):
                    shards.append({"kind": "enum", "shape": shape, "rewset": (0,), "lo": lo, "hi": hi, "manual": False, "triples": TRIPLES[2:]})
    for shape, vals in (((2, 2), (0, 1, 2, 5)), ((2, 3), (0, 3, 5)), ((3, 2), (0, 3, 5)), ((2, 2), (0, 0.5, 2.5)), ((1, 3), (0.25, 1, 1.75))):
        for lo, hi in par.ranges(len(vals) ** (shape[0] * shape[1]), ctx.jobs):
            shards.append({"kind": "rewards", "shape": shape, "values": vals, "manual": True, "lo": lo, "hi": hi})
        spaces.append({"reward_layout_boards": len(vals) ** (shape[0] * shape[1]), "shape_length_x_width": list(shape), "reward_values": list(vals),
                       "entry_points": ["write_robots", "create_sg_from_board"]})
    rnd = []
    sizes = [(2, 3), (3, 3), (4, 2)] if not ctx.thorough else [(2, 3), (3, 3), (4, 2), (3, 4), (5, 5), (6, 6), (1, 12), (12, 1)]
    seeds = range(ctx.seed, ctx.seed + (3 if not ctx.thorough else 12))
    for (w, l) in sizes:
        for seed in seeds:
            for fd in (False, True):
                rnd.append((w, l, seed, fd))
    big = [(10, 9, ctx.seed % 7, False), (9, 10, ctx.seed % 7, True),           # 90 tiles: index offsets beyond 256
           (300, 1, ctx.seed % 5, False), (1, 300, ctx.seed % 5, False), (259, 2, ctx.seed % 3, True)]      # more than 256 columns / rows: widths and column numbers beyond the small-integer range
    for b in big:
        shards.append({"kind": "random", "boards": [b], "lo": 0, "triples": TRIPLES[:1]})
    for i in range(0, len(rnd), 4):
        shards.append({"kind": "random", "boards": rnd[i:i + 4], "lo": i})
    spaces.append({"large_random_boards_w_l_seed_forcedown": [list(b) for b in big]})
    spaces.append({"random_boards_from_gen_rnd_board": len(rnd), "sizes_w_x_l": [list(s) for s in sizes], "seeds": [seeds[0], seeds[-1]]})
    return shards, spaces


RULE = ("every board of the listed shapes over the tile alphabet {arrow <-,<->,->,v} x {firm, loose} x rewards, x 4 probability triples (one with values that are not whole percentages, one with probabilities equal to their complement) x 3 games, "
        "written by the real generator to a file and read back by the solver's reader, is compared with the rule model by partition "
        "refinement; non-trivial = one-column board, or a board with a down-only or a loose tile")
ASSUME = ["the rule model is the harness author's reading of the property text: a robot failure re-lands the robot on its own tile "
          "(so a loose tile may break again); every move passes a separate landing step",
          "probabilities compared after rounding block sums to 1e-9",
          "boards above the exhaustive bound are seeded samples from gen_rnd_board (not exhaustive)"]


def run(ctx):
    shards, spaces = plan(ctx)
    tot = par.run_shards(work, shards, ctx.jobs)
    if not tot.get("violations") and tot["nontrivial"] < 10:
        raise par.GuardError("C08 vacuity guard")
    cov = {"states": tot["states"], "transitions": tot["transitions"], "traces_validated_against_impl": tot["comparisons"],
           "evaluations": tot["comparisons"], "distinct_nontrivial": tot["nontrivial"], "boards": tot["boards"],
           "max_refinement_rounds": tot["max_rounds"], "rule": RULE, "spaces": spaces,
           "exhaustive": not tot.get("truncated"), "samples": tot["samples"][:5]}
    return {"coverage": cov, "violations": tot["violations"], "assumptions": ASSUME}


def replay(case):
    inp, cfg = case["input"], case["config"]
    tmp = tempfile.mkdtemp(prefix="crverif_c08_")
    os.mkdir(os.path.join(tmp, "inputs"))
    try:
        args = (inp["length"], inp["width"], inp["moves"], inp["rewards"], inp["loose_tiles"],
                (cfg["prob_robot_break"], cfg["prob_light_break"], cfg["prob_tile_break"]), cfg["entry"] == "create_sg_from_board")
        res, _, _, _ = check_board(tmp, *args)
        pb = cfg.get("board_written_to_the_same_path_before")
        if not res and pb:
            # history: the file path had been written before (the generator must truncate what is there)
            try:
                G.write_robots(os.path.join(tmp, "inputs", "x.py"), pb["length"], pb["width"], pb["moves"], pb["rewards"], pb["loose_tiles"],
                               pb["triple"][2], pb["triple"][0], pb["triple"][1])
            except Exception:                                # noqa: BLE001
                pass
            res, _, _, _ = check_board(tmp, *args)
    finally:
        shutil.rmtree(tmp, ignore_errors=True)
    for f in res:
        if f[0] == case["klass"]:
            return repr(f)
    return repr(res[0]) if res else None
