"""C13 - results do not depend on how the game is written down.

Exhaustive group action on small stopping games: every permutation of the non-initial states x every
per-state transition order x four injective action renamings (full product on the degree-2 universe
and the focus-state family, sum of generators on larger ones); metamorphic oracle relative to the base
presentation, with the exact solver deciding tolerances and rounded-tie (KF-C04-1) classification.
Boards: fixed permutation / reversal patterns with an engineering tolerance.
"""
import itertools
import os
import shutil
import tempfile

from .. import judge as J, oracle as O, par, run as Rn, sweep, universe as U
from ..repo import P1, P2, PR, roberta_generator as G, conditionalrewards as CR

PROP = "C13"
RENAMINGS = [None,
             {"a": "ab", "ab": "a"},                                                              # swap two names
             {"a": "zeta", "ab": "yota", "b": "xi", "ba": "omega", "aa": "alpha", "x": "m2", "y": "m1",  # fresh names, reverse alphabetical
              "Green": "zz", "Yellow": "aa", "Down": "v", "Left": "l", "Right": "k"},
             {"a": "go", "ab": "g", "b": "go_back", "ba": "o", "aa": "back", "x": "x1", "y": "x",        # names contained in one another
              "Green": "Yellow", "Yellow": "Green", "Down": "Left", "Left": "Le", "Right": "Down"}]
BOARD_TOL = 1e-3


def present(game, perm, orders, ren):
    """perm[s] = new index of old state s (perm[0] == 0); orders[s] = tuple of old transition positions in new order"""
    n = len(game["players"])
    players = [None] * n
    rewards = [None] * n
    tl = [None] * n
    for s in range(n):
        row = game["transition_list"][s]
        order = orders[s] if orders and orders[s] is not None else range(len(row))
        new = []
        for i in order:
            lab, t = row[i]
            if isinstance(lab, str) and ren:
                lab = ren.get(lab, lab)
            new.append((lab, perm[t]))
        tl[perm[s]] = new
        players[perm[s]] = game["players"][s]
        rewards[perm[s]] = game["rewards"][s]
    return dict(rewards=rewards, players=players, transition_list=tl, final_states=[perm[f] for f in game["final_states"]])


def _map_strat(base_list, row_new_names, ren):
    """a base strategy list, renamed, listed in the NEW transition order"""
    if base_list is None:
        return None
    names = set((ren.get(a, a) if ren else a) for a in base_list)
    return [a for a in row_new_names if a in names]


def compare(sc, base_game, base_runs, game2, perm, ren, acc, exact=True, where=""):
    """returns (findings, known)"""
    findings, known = [], []
    n = sc.n
    inv = [0] * n
    for s in range(n):
        inv[perm[s]] = s
    for prune in (True, False):
        b = base_runs[prune]
        o2 = Rn.solve(game2, prune, cpu_s=120.0 if sc.n > 40 else sweep.STOP_CPU, confirm=False)
        acc["executions"] += 1
        cfg = {"prune": prune}
        if "timeout" in (b.out.kind, o2.kind):
            acc["stopping_timeouts"] = acc.get("stopping_timeouts", 0) + 1
            continue
        if b.out.kind != o2.kind and prune and {b.out.kind, o2.kind} == {"nosol", "ok"} and 0 < sc.vstar[0] <= sc.eps_reach():
            known.append(("KF-C06-1", o2.kind, b.out.kind,
                          "one presentation is declared to have no solution, the other is solved: the exact value of the initial state is %.3g, "
                          "not larger than the convergence tolerance" % float(sc.vstar[0]), cfg))
            continue
        if b.out.kind != o2.kind:
            findings.append(("C13/solvability-differs", o2.brief(), b.out.brief(),
                             "base presentation: %s, transformed presentation: %s (%s)" % (b.out.kind, o2.kind, o2.error), cfg))
            continue
        acc["judged"] += 1
        if o2.kind != "ok":
            if b.out.error != o2.error and o2.kind != "nosol":
                findings.append(("C13/error-differs", o2.error, b.out.error, "different errors", cfg))
            continue
        r1, r2 = b.out.result, o2.result
        eps = 2 * sc.eps_reach()
        # 1. probabilities
        for s in range(n):
            if abs(r1[3][s] - r2[3][perm[s]]) > eps:
                findings.append(("C13/probability-differs", r2[3][perm[s]], r1[3][s],
                                 "state %d: probability %r vs %r in the base presentation (tolerance %.3g)" % (s, r2[3][perm[s]], r1[3][s], eps), cfg))
                break
        if findings:
            continue
        # 2. reachability strategies
        tie = False
        for s in range(n):
            if sc.players[s] == PR:
                continue
            names2 = [a for a, _ in game2["transition_list"][perm[s]]]
            want = _map_strat(r1[1][s], names2, ren)
            got = r2[1][perm[s]]
            if got != want:
                # a difference that follows from the (in-tolerance) difference of the reported values: each run applies the
                # documented rounding rule to its own numbers, and the numbers of the competing successors are not the same
                row1 = sc.tl[s]
                row2 = game2["transition_list"][perm[s]]
                if (r1[1][s] == J._rule_actions(sc.players[s], row1, r1[3]) and got == J._rule_actions(sc.players[s], row2, r2[3])
                        and any(r1[3][t] != r2[3][perm[t]] for _, t in row1)):
                    acc["pairs_differing_within_tolerance"] = acc.get("pairs_differing_within_tolerance", 0) + 1
                    tie = True
                    break
                # rounded tie? both runs must individually match the KF-C04-1 signature or be exact
                f1, k1 = J.judge_c04(sc, r1[1], r1[3])
                sc2 = J.SCache(game2["players"], game2["transition_list"], game2["final_states"])
                f2, k2 = J.judge_c04(sc2, r2[1], r2[3])
                if not f1 and not f2 and (k1 or k2):
                    known.append(("KF-C04-1", got, want,
                                  "state %d: reachability strategy %r in the transformed presentation vs %r expected from the base; "
                                  "both are rounded-tie sub-lists of the same exact optimal set" % (s, got, want), cfg))
                    tie = True
                else:
                    findings.append(("C13/reach-strategy-differs", got, want,
                                     "state %d (new index %d): reachability strategy %r, expected %r from the base presentation (prune=%s)"
                                     % (s, perm[s], got, want, prune), cfg))
                break
        if findings or tie:
            continue
        # 3. rewards and final strategies on the states the properties speak about
        ctl = b.ctl
        states = sorted(b.R) if prune else list(range(n))
        rg = sc.reward_game(ctl)
        AR = rg.max_time(states)
        if AR == float("inf"):
            acc["skipped"] += 1
            continue
        ev = rg.values(b.rewards)
        for s in states:
            tol = 2 * J.reward_eps(AR, b.rewards, ev[s] if ev[s] != float("inf") else 0)
            if abs(r1[2][s] - r2[2][perm[s]]) > tol:
                findings.append(("C13/reward-differs", r2[2][perm[s]], r1[2][s],
                                 "state %d: expected reward %r vs %r in the base presentation (tolerance %.3g, prune=%s)"
                                 % (s, r2[2][perm[s]], r1[2][s], tol, prune), cfg))
                break
        if findings:
            continue
        # 3a. the two diagnostic vectors, when the base run is in the scope in which they are determined by the reported strategies
        # (C14: single final actions, no exact reward tie at reachable player states)
        if b._c14 is None:
            try:
                f14, in14, _ = J.judge_c14(sc, b)
                b._c14 = in14 and not f14
            except Exception:                                # noqa: BLE001
                b._c14 = False
        if b._c14:
            for s in sorted(b.R):          # C14 speaks about states reachable from the initial state only (ties elsewhere are broken by order)
                tolp = 2 * (J.DELTA * (1 + float(AR)) + 1e-9)
                if abs(r1[6][s] - r2[6][perm[s]]) > tolp:
                    findings.append(("C13/diagnostic-differs", r2[6][perm[s]], r1[6][s],
                                     "state %d: 'probabilities under minimal reward' %r vs %r in the base presentation (prune=%s)"
                                     % (s, r2[6][perm[s]], r1[6][s], prune), cfg))
                    break
                tolr = 2 * J.reward_eps(AR, b.rewards, r1[7][s])
                if abs(r1[7][s] - r2[7][perm[s]]) > tolr:
                    findings.append(("C13/diagnostic-differs", r2[7][perm[s]], r1[7][s],
                                     "state %d: 'rewards under minimal reachability' %r vs %r in the base presentation (prune=%s)"
                                     % (s, r2[7][perm[s]], r1[7][s], prune), cfg))
                    break
            if findings:
                continue
        # 3b. states NOT reachable from the initial state in the conditioned game (pruning on): their reported numbers are the
        # fixed point of whatever the solver left of them; the amplification factor is taken from the observed lists of the base run
        if prune and len(states) < n and b.out.snap is not None:
            extra = [s for s in range(n) if s not in b.R]
            try:
                rg2 = sc.reward_game(O.exact_rows(b.out.snap))
                A2 = rg2.max_time(extra)
            except (ZeroDivisionError, ValueError, TypeError):
                A2 = float("inf")
            if A2 != float("inf"):
                for s in extra:
                    tol = 2 * J.reward_eps(A2, b.rewards, r1[2][s])
                    if abs(r1[2][s] - r2[2][perm[s]]) > tol:
                        findings.append(("C13/reward-differs-unreachable-state", r2[2][perm[s]], r1[2][s],
                                         "state %d (not reachable from the initial state after conditioning): expected reward %r vs %r in the base "
                                         "presentation (tolerance %.3g)" % (s, r2[2][perm[s]], r1[2][s], tol), cfg))
                        break
                    if sc.players[s] != PR:
                        vals = sorted(r1[2][t] for _, t in b.out.snap[s])
                        if any(abs(y - x) <= 2 * tol + 1e-6 for x, y in zip(vals, vals[1:])):
                            continue
                        names2 = [a for a, _ in game2["transition_list"][perm[s]]]
                        want = _map_strat(r1[0][s], names2, ren)
                        if r2[0][perm[s]] != want:
                            findings.append(("C13/final-strategy-differs-unreachable-state", r2[0][perm[s]], want,
                                             "state %d (not reachable from the initial state after conditioning): final strategy %r, expected %r"
                                             % (s, r2[0][perm[s]], want), cfg))
                            break
            if findings:
                continue
        for s in states:
            if sc.players[s] == PR:
                continue
            names2 = [a for a, _ in game2["transition_list"][perm[s]]]
            want = _map_strat(r1[0][s], names2, ren)
            got = r2[0][perm[s]]
            if got != want and b.out.snap is not None and o2.snap is not None:
                # explained by in-tolerance differences of the reported rewards: each run follows the documented rounding rule on
                # its own numbers over its own permitted transitions, and those numbers are not the same
                def rule_rew(who, row, rew):
                    best, acts = None, []
                    for a, t in row:
                        x = round(rew[t], 6)
                        if best is None or (x > best if who == P1 else x < best):
                            best, acts = x, [a]
                        elif x == best:
                            acts.append(a)
                    return acts
                row1, row2 = b.out.snap[s], o2.snap[perm[s]]
                if (len(row1) == len(row2) and r1[0][s] == rule_rew(sc.players[s], row1, r1[2]) and got == rule_rew(sc.players[s], row2, r2[2])
                        and any(r1[2][t] != r2[2][perm[t]] for _, t in row1)):
                    acc["pairs_differing_within_tolerance"] = acc.get("pairs_differing_within_tolerance", 0) + 1
                    break
            if got != want:
                # rounded reward tie (the *_total_rewards analogue of KF-C04-1): exact successor rewards tie, both lists are
                # sub-lists of the exact optimal list and follow the rounding rule on their own reported numbers
                row = ctl[s]
                vals = [ev[t] for _, t in row]
                opt = max(vals) if sc.players[s] == P1 else min(vals)
                E = [a for (a, t), x in zip(row, vals) if x == opt]
                E2 = set((ren.get(a, a) if ren else a) for a in E)
                ok1 = r1[0][s] and set(r1[0][s]) <= set(E)
                ok2 = got and set(got) <= E2
                near = all(abs(float(opt) - r1[2][t]) <= J.reward_eps(AR, b.rewards, opt) for (a, t) in row if a in E)
                if ok1 and ok2 and near and len(E) > 1:
                    known.append(("KF-C04-1", got, want,
                                  "state %d: final strategy %r vs %r expected from the base; exact conditioned rewards tie (rounded tie)"
                                  % (s, got, want), cfg))
                else:
                    findings.append(("C13/final-strategy-differs", got, want,
                                     "state %d (new index %d): final strategy %r, expected %r from the base presentation (prune=%s)"
                                     % (s, perm[s], got, want, prune), cfg))
                break
    return findings, known


def presentations(game, mode):
    """(perm, orders, renaming) triples; mode 'product' = full product, 'sum' = sum of generators"""
    n = len(game["players"])
    if n > 20:
        # large games: reversal, two rotations and an interleaving of the non-initial states; all lists reversed; one renaming
        degs = [len(r) for r in game["transition_list"]]
        ident_o = tuple(tuple(range(d)) for d in degs)
        rev_o = tuple(tuple(reversed(range(d))) for d in degs)
        rest = list(range(1, n))
        inter = rest[1::2] + rest[0::2]
        pinter = [0] * n
        for pos, s_ in enumerate(inter):
            pinter[s_] = pos + 1
        yield tuple([0] + list(range(n - 1, 0, -1))), ident_o, None
        yield tuple([0] + [1 + ((s_ - 1 + 1) % (n - 1)) for s_ in range(1, n)]), rev_o, None
        yield tuple([0] + [1 + ((s_ - 1 + (n - 1) // 2) % (n - 1)) for s_ in range(1, n)]), ident_o, RENAMINGS[3]
        yield tuple(pinter), rev_o, RENAMINGS[2]
        return
    if mode.endswith("-gens") or n > 6:
        # generators of the permutation group instead of the whole group: adjacent transpositions, rotations, reversal
        perms = set()
        for i in range(1, n - 1):
            p = list(range(n))
            p[i], p[i + 1] = p[i + 1], p[i]
            perms.add(tuple(p))
        for k in (1, max(1, (n - 1) // 2)):
            perms.add(tuple([0] + [1 + ((s - 1 + k) % (n - 1)) for s in range(1, n)]))
        perms.add(tuple([0] + list(range(n - 1, 0, -1))))
        perms = sorted(perms)
        mode = mode.replace("-gens", "")
    else:
        perms = [(0,) + p for p in itertools.permutations(range(1, n))]
    degs = [len(r) for r in game["transition_list"]]
    order_sets = [list(itertools.permutations(range(d))) if d <= 4 else
                  [tuple(range(d)), tuple(reversed(range(d))), tuple(list(range(1, d)) + [0])] for d in degs]
    if mode == "sum":
        total = 1
        for o in order_sets:
            total *= len(o)
        if total > 2000:       # many multi-action states (boards, large examples): reverse each state's list at a time instead
            order_sets = None
    ident_orders = tuple(tuple(range(d)) for d in degs)
    ident = tuple(range(n))
    if mode == "product":
        for perm in perms:
            for orders in itertools.product(*order_sets):
                for ren in RENAMINGS:
                    if perm == ident and orders == ident_orders and ren is None:
                        continue
                    yield perm, orders, ren
    else:
        for perm in perms:
            if perm != ident:
                yield perm, ident_orders, None
        if order_sets is None:
            for s in range(n):
                if degs[s] > 1:
                    yield ident, tuple(tuple(reversed(range(d))) if i == s else tuple(range(d)) for i, d in enumerate(degs)), None
        else:
            for orders in itertools.product(*order_sets):
                if orders != ident_orders:
                    yield ident, orders, None
        for ren in RENAMINGS[1:]:
            yield ident, ident_orders, ren
        rev = tuple([0] + list(range(n - 1, 0, -1)))
        yield rev, tuple(tuple(reversed(range(d))) for d in degs), RENAMINGS[2]


def check_structure(sc, rewards, mode, acc, uname):
    game = sc.game(rewards)
    base_runs = {}
    for prune in (True, False):
        base_runs[prune] = J.GameRun(sc, rewards, prune, confirm=False,
                                     outcome=Rn.solve(game, prune, cpu_s=120.0 if sc.n > 40 else sweep.STOP_CPU, confirm=False))
        acc["executions"] += 1
    npres = 0
    for perm, orders, ren in presentations(game, mode):
        npres += 1
        g2 = present(game, perm, orders, ren)
        f, k = compare(sc, game, base_runs, g2, perm, ren, acc)
        acc["games"] += 1
        if f or k:
            for x in f + k:
                x[4].update({"perm": list(perm), "orders": [list(o) for o in orders], "renaming": ren})
            sweep.record(PROP, sc, rewards, f, k, acc, uname)
            if f:
                break
    if npres > 1 and (len(set(len(r) for r in sc.tl)) > 1 or sc.n > 3):
        acc["nontrivial"] += 1


def work(shard):
    acc = sweep._new_acc()
    kind = shard["kind"]
    if kind == "universe":
        Un = sweep.universe(shard["universe"])
        for players, tl, finals in Un.structures(shard["lo"], shard["hi"]):
            sc = J.SCache(players, tl, finals)
            if not sc.stopping:
                acc["skipped_structures"] = acc.get("skipped_structures", 0) + 1
                continue
            acc["structures"] += 1
            nonabs = [s for s in range(sc.n) if s not in sc.absorbing]
            rewards = [0] * sc.n
            for i, s in enumerate(nonabs):
                rewards[s] = 1 + (i % 2)
            check_structure(sc, rewards, shard["mode"], acc, shard["universe"])
            if len(acc["samples"]) < 1 and acc["structures"] % 53 == 1:
                acc["samples"].append({"universe": shard["universe"], "game": sc.game(rewards), "presentations": shard["mode"]})
            if acc.get("n_violations", 0) >= 6 or acc.get("stopping_timeouts", 0) >= sweep.STOP_TIMEOUT_CAP:
                acc["truncated"] = 1
                break
    elif kind == "games":
        fam = sweep.family_slice(shard)
        for game in fam[shard["lo"]:shard["hi"]]:
            sc = J.SCache(game["players"], game["transition_list"], game["final_states"])
            if not (sc.stopping and all(game["rewards"][s] == 0 for s in sc.absorbing)):
                acc["skipped_structures"] = acc.get("skipped_structures", 0) + 1
                continue
            acc["structures"] += 1
            check_structure(sc, game["rewards"], shard["mode"], acc, shard["family"])
            if len(acc["samples"]) < 1 and acc["structures"] % 53 == 1:
                acc["samples"].append({"universe": shard["family"], "game": game, "presentations": shard["mode"]})
            if acc.get("n_violations", 0) >= 6 or acc.get("stopping_timeouts", 0) >= sweep.STOP_TIMEOUT_CAP:
                acc["truncated"] = 1
                break
    else:
        work_board(shard, acc)
    return acc


# ---------------------------------------------------------------------------------------------------- boards

def gen_board_games(w, l, seed, force_down):
    tmp = tempfile.mkdtemp(prefix="crverif_c13_")
    try:
        moves, rewards, loose = G.gen_rnd_board(seed, l, w, 0.3, 3, force_down)
        path = os.path.join(tmp, "b.py")
        G.write_robots(path, l, w, moves, rewards, loose, 0.1, 0.1, 0.1)
        return CR.read_dict_from_file(path)
    finally:
        shutil.rmtree(tmp, ignore_errors=True)


def board_patterns(game):
    n = len(game["players"])
    degs = [len(r) for r in game["transition_list"]]
    ident_o = tuple(tuple(range(d)) for d in degs)
    rev_o = tuple(tuple(reversed(range(d))) for d in degs)
    ident = tuple(range(n))
    rev = tuple([0] + list(range(n - 1, 0, -1)))
    rot = tuple([0] + [1 + ((s - 1 + n // 2) % (n - 1)) for s in range(1, n)])
    inter = tuple([0] + [1 + ((3 * (s - 1)) % (n - 1)) if (n - 1) % 3 else 1 + ((s - 1) * 2) % (n - 1) if (n - 1) % 2 else s for s in range(1, n)])
    pats = [(rev, ident_o, None), (ident, rev_o, None), (rev, rev_o, RENAMINGS[2]), (rot, ident_o, None),
            (rot, rev_o, None), (ident, ident_o, RENAMINGS[2]), (ident, ident_o, RENAMINGS[3])]
    if sorted(inter) == list(range(n)):
        pats.append((inter, ident_o, None))
        pats.append((inter, rev_o, RENAMINGS[2]))
    return pats


def _near_tie(vals):
    vals = sorted(vals)
    return any(abs(y - x) <= 10 * BOARD_TOL * max(1.0, abs(x)) for x, y in zip(vals, vals[1:]))


def board_compare(game, perm, orders, ren, cpu):
    """Boards have no exact oracle.  A strategy difference at a state whose competing reported values are within
    10x the board tolerance cannot be classified (it may be a rounded tie, KF-C04-1) and ends the comparison of that
    pair as 'unclassified'; everything else must agree.  With pruning on, rewards and final strategies are compared
    on the states reachable from the initial state in the observed conditioned game (the states C02/C05 speak about)."""
    g2 = present(game, perm, orders, ren)
    n = len(game["players"])
    out = []
    judged = unclassified = 0
    for prune in (True, False):
        o1 = Rn.solve(game, prune, cpu_s=cpu, confirm=False)
        o2 = Rn.solve(g2, prune, cpu_s=cpu, confirm=False)
        if "timeout" in (o1.kind, o2.kind):
            continue
        judged += 1
        if o1.kind != o2.kind:
            out.append(("C13/board-solvability-differs", o2.kind, o1.kind, "base %s vs transformed %s" % (o1.kind, o2.kind), prune))
            continue
        if o1.kind != "ok":
            continue
        r1, r2 = o1.result, o2.result
        tl = game["transition_list"]
        stop = False
        for s in range(n):
            if game["players"][s] == PR:
                continue
            names2 = [x for x, _ in g2["transition_list"][perm[s]]]
            want = _map_strat(r1[1][s], names2, ren)
            if r2[1][perm[s]] != want:
                if _near_tie([r1[3][t] for _, t in tl[s]]):
                    unclassified += 1
                else:
                    out.append(("C13/board-strategy-differs", r2[1][perm[s]], want, "state %d, reachability strategy" % s, prune))
                stop = True
                break
        if stop:
            continue
        for s in range(n):
            if abs(r1[3][s] - r2[3][perm[s]]) > BOARD_TOL:
                out.append(("C13/board-probability-differs", r2[3][perm[s]], r1[3][s], "state %d" % s, prune))
                stop = True
                break
        if stop:
            continue
        states = sorted(O.reachable_from(o1.snap, 0)) if prune else list(range(n))
        for s in states:
            if game["players"][s] == PR:
                continue
            names2 = [x for x, _ in g2["transition_list"][perm[s]]]
            want = _map_strat(r1[0][s], names2, ren)
            if r2[0][perm[s]] != want:
                if _near_tie([r1[2][t] for _, t in o1.snap[s]]):
                    unclassified += 1
                else:
                    out.append(("C13/board-strategy-differs", r2[0][perm[s]], want, "state %d, final strategy" % s, prune))
                stop = True
                break
        if stop:
            continue
        for s in states:
            a, b = r1[2][s], r2[2][perm[s]]
            if abs(a - b) > BOARD_TOL * max(1.0, abs(a)):
                out.append(("C13/board-reward-differs", b, a, "state %d" % s, prune))
                break
    return out, judged, unclassified


def work_board(shard, acc):
    w, l, seed, fd = shard["board"]
    d = gen_board_games(w, l, seed, fd)
    for key in sorted(d):
        game = {k: d[key][k] for k in ("rewards", "players", "transition_list", "final_states")}
        acc["structures"] += 1
        for perm, orders, ren in board_patterns(game):
            res, judged, uncl = board_compare(game, perm, orders, ren, shard["cpu"])
            acc["board_pairs_unclassified_near_tie"] = acc.get("board_pairs_unclassified_near_tie", 0) + uncl
            acc["executions"] += 4
            acc["games"] += 1
            acc["judged"] += judged
            acc["board_pairs"] = acc.get("board_pairs", 0) + 1
            for kl, obs, exp, what, prune in res[:1]:
                acc["n_violations"] = acc.get("n_violations", 0) + 1
                if len(acc["violations"]) < 3:
                    acc["violations"].append({"kind": "board", "klass": kl,
                                              "input": {"board": [w, l, seed, fd], "game": key},
                                              "config": {"perm": list(perm), "orders": [list(o) for o in orders], "renaming": ren, "prune": prune, "cpu": shard["cpu"]},
                                              "observed": sweep._lit(obs), "expected": sweep._lit(exp),
                                              "explanation": "board %dx%d seed %d %s %s: %s %s (observed %r, base %r)" % (w, l, seed, "force-down" if fd else "", key, kl, what, obs, exp)})
    acc["nontrivial"] += 3


# ------------------------------------------------------------------------------------------------------ run

RULE = ("for every stopping game of the listed universes: every permutation of the non-initial states x every per-state transition order "
        "x 4 injective action renamings (identity, a swap, fresh names, names contained in one another) (mode 'product') or the sum of those generators plus the full reversal (mode 'sum'); each "
        "transformed presentation is solved in both modes and compared with the base presentation (solvability, probabilities and "
        "rewards after renumbering, strategies after renaming in the new transition order); non-trivial = a game with states of "
        "different out-degree or more than 3 states (so that some presentation really differs); boards: 6-8 fixed patterns each")
ASSUME = ["tolerances 2*eps(G) and 2*eps_R(G) from the exact solver; boards: engineering tolerance 1e-3 and strategies only at clearly separated values",
          "pairs whose strategies differ only by a rounded tie matching the KF-C04-1 signature are counted under that known finding and their "
          "downstream numbers are not compared"]
KF = {"KF-C06-1": "solvability depends on the numbering when the initial state's exact value is positive but not larger than the convergence tolerance (same finding as C06)",
      "KF-C04-1": "presentation-dependent loss of an exact tie by rounding non-converged iterates (same finding as C04; e.g. inputs/example_17_08.py state 0)"}


def plan(ctx):
    j = ctx.jobs
    shards, spaces = [], []

    def uni(name, mode, frac=None):
        Un = sweep.universe(name)
        lo, hi = 0, Un.size
        if frac:
            block = -(-Un.size // frac)
            b = ctx.seed % frac
            lo, hi = b * block, min(Un.size, (b + 1) * block)
        for a, b in par.ranges(hi - lo, j * 6):
            shards.append({"kind": "universe", "universe": name, "lo": lo + a, "hi": lo + b, "mode": mode})
        spaces.append({"universe": name, "size": Un.size, "explored_indices": [lo, hi], "presentations": mode,
                       "fraction": "1/%d" % frac if frac else "all"})

    def fam(name, mode, **kw):
        size = sweep.family_size(name, **kw)
        for a, b in par.ranges(size, j * 6):
            sh = {"kind": "games", "family": name, "lo": a, "hi": b, "mode": mode}
            sh.update(kw)
            shards.append(sh)
        spaces.append(dict({"universe": name, "size": size, "presentations": mode}, **kw))

    if ctx.thorough:
        uni("U-S2d2", "product")
        uni("U-S2", "sum")
        uni("U-S3", "sum", frac=8)
        fam("U-F", "sum", max_deg=4)
        fam("U-F", "product", max_deg=2)
        boards = [(w, l, s, fd) for (w, l) in ((1, 2), (2, 1), (2, 2), (3, 2), (2, 3), (3, 3), (5, 5)) for s in (0, 1, 2) for fd in (False, True)]
        cpu = 20.0
    else:
        uni("U-S2d2", "product")
        uni("U-S2", "sum", frac=16)
        uni("U-S3", "sum", frac=256)
        fam("U-F", "sum-gens", max_deg=3, stride=2, offset=ctx.seed)
        boards = [(w, l, s, fd) for (w, l) in ((1, 2), (2, 2), (3, 2)) for s in (0, 1) for fd in (False, True)]
        cpu = 2.0
    fam("U-C", "sum-gens", stride=1 if ctx.thorough else 24, offset=ctx.seed)     # chains: values settle late along the numbering
    fam("U-P2", "sum-gens", stride=1 if ctx.thorough else 36, offset=ctx.seed)    # two-level choices
    fam("U-G", "sum-gens", stride=6 if ctx.thorough else 48, offset=ctx.seed)    # corridors of 11-16 states
    fam("U-A", "sum", stride=1 if ctx.thorough else 3, offset=ctx.seed, all_sizes=bool(ctx.thorough))    # large acyclic games (4 presentations each)
    fam("U-J", "sum")              # a 1100-state chain under 4 numberings
    if ctx.thorough:
        fam("U-H", "sum")
        fam("U-SC", "sum")
    fam("U-K", "sum-gens", stride=1 if ctx.thorough else 4, offset=ctx.seed)
    fam("U-N", "sum")              # near chains: order of three almost-equal successors must not matter
    if ctx.thorough:
        fam("U-R", "sum-gens")     # reward ties through different float sums
    else:
        fam("U-R", "sum-gens", stride=3, offset=ctx.seed)
    fam("U-X", "sum")
    for b in boards:
        shards.append({"kind": "board", "board": b, "cpu": cpu, "lo": 0})
    spaces.append({"universe": "U-B generated boards", "boards": [list(b) for b in boards], "games_per_board": 3})
    return shards, spaces


def run(ctx):
    shards, spaces = plan(ctx)
    shards.sort(key=lambda s: (s.get("lo", 0) * 7919) % 104729)
    tot = par.run_shards(work, shards, ctx.jobs)
    known = tot.get("known", {})
    for kid, d in known.items():
        d["what"] = KF.get(kid, "")
    truncated = bool(tot.get("truncated"))
    if not tot.get("violations") and tot["nontrivial"] < 10:
        raise par.GuardError("C13 vacuity guard")
    if tot.get("stopping_timeouts", 0):
        print("INCOMPLETE: %d runs on stopping games did not return within the alarm and were not judged (termination is C06's verdict)" % tot["stopping_timeouts"])
    cov = {"states": tot["structures"], "transitions": tot["executions"], "traces_validated_against_impl": tot["judged"],
           "evaluations": tot["games"], "distinct_nontrivial": tot["nontrivial"], "rule": RULE, "universes": spaces,
           "presentation_pairs": tot["games"], "board_pairs": tot.get("board_pairs", 0),
           "board_mode_runs_unclassified_near_tie": tot.get("board_pairs_unclassified_near_tie", 0),
           "pairs_whose_strategies_differ_because_reported_values_differ_within_tolerance": tot.get("pairs_differing_within_tolerance", 0),
           "non_stopping_structures_skipped": tot.get("skipped_structures", 0),
           "exhaustive": not truncated, "samples": tot.get("samples", [])[:6]}
    return {"coverage": cov, "violations": tot.get("violations", []), "known": known, "assumptions": ASSUME}


def replay(case):
    cfg = case["config"]
    if case.get("kind") == "board":
        w, l, seed, fd = case["input"]["board"]
        d = gen_board_games(w, l, seed, fd)
        g = d[case["input"]["game"]]
        game = {k: g[k] for k in ("rewards", "players", "transition_list", "final_states")}
        res, _, _ = board_compare(game, tuple(cfg["perm"]), tuple(tuple(o) for o in cfg["orders"]), cfg["renaming"], max(20.0, cfg.get("cpu", 2.0) * 5))
        return repr(res[0]) if res else None
    g = case["input"]
    tl = [[tuple(t) for t in row] for row in g["transition_list"]]
    sc = J.SCache(g["players"], tl, g["final_states"])
    game = sc.game(g["rewards"])
    acc = sweep._new_acc()
    base_runs = {p: J.GameRun(sc, g["rewards"], p, confirm=False, outcome=Rn.solve(game, p, cpu_s=5.0, confirm=False)) for p in (True, False)}
    perm = tuple(cfg["perm"])
    orders = tuple(tuple(o) for o in cfg["orders"])
    g2 = present(game, perm, orders, cfg["renaming"])
    f, k = compare(sc, game, base_runs, g2, perm, cfg["renaming"], acc)
    for x in f + k:
        if x[0] == case.get("klass"):
            return x[3]
    return f[0][3] if f else None
