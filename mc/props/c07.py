"""C07 - backward search returns exactly the co-reachable non-final states.

Exhaustive enumeration of all small directed multigraphs x all final sequences (any order, with
repetitions), plus a size/depth ladder and generated boards; oracle: BFS closure on reversed edges.
"""
import itertools
import os
import shutil
import tempfile

from .. import budget, par
from ..repo import reverse_dfs as R, roberta_generator as G, conditionalrewards as CR
from ..universe import Product

LABEL = "a"


def rows_for(n, max_deg, unordered=False):
    rows = []
    for d in range(0, max_deg + 1):
        it = itertools.combinations(range(n), d) if unordered else itertools.product(range(n), repeat=d)
        for tg in it:
            rows.append(tuple((LABEL, t) for t in tg))
    return rows


def final_seqs(n, max_len):
    out = []
    for k in range(1, max_len + 1):
        out.extend(list(f) for f in itertools.product(range(n), repeat=k))
    return out


def oracle(tl, finals):
    n = len(tl)
    pred = [[] for _ in range(n)]
    for u, row in enumerate(tl):
        for _, v in row:
            pred[v].append(u)
    seen = set(finals)
    todo = list(seen)
    while todo:
        v = todo.pop()
        for u in pred[v]:
            if u not in seen:
                seen.add(u)
                todo.append(u)
    return sorted(seen - set(finals)), pred


def check_one(tl, finals, table=True):
    """returns None or (klass, observed, expected)"""
    exp, pred = oracle(tl, finals)
    try:
        got = R.reverse_dfs([list(r) for r in tl], list(finals))
    except Exception as e:                                   # noqa: BLE001
        return ("exception", "%s: %s" % (type(e).__name__, str(e)[:80]), exp)
    if got != exp:
        if sorted(set(got)) == exp:
            klass = "duplicates" if sorted(got) == got else "unsorted"
        else:
            klass = "wrong-set"
        return (klass, got, exp)
    if table:
        try:
            tab = R.reverse_transition_list([list(r) for r in tl])
        except Exception as e:                               # noqa: BLE001
            return ("table-exception", "%s: %s" % (type(e).__name__, str(e)[:80]), None)
        n = len(tl)
        if not isinstance(tab, dict) or sorted(tab.keys()) != list(range(n)):
            return ("table-keys", repr(tab)[:200], list(range(n)))
        for v in range(n):
            if sorted(tab[v]) != sorted(pred[v]):
                return ("table-entries", {v: tab[v]}, {v: pred[v]})
    return None


def mk_case(tl, finals, res, family):
    klass, got, exp = res
    return {"kind": "graph", "klass": "C07/" + klass,
            "input": {"transition_list": [list(r) for r in tl], "final_states": list(finals)} if len(tl) <= 50
            else {"family": family},
            "family": family,
            "config": {}, "observed": got if len(repr(got)) < 2000 else repr(got)[:2000], "expected": exp if len(repr(exp)) < 2000 else None,
            "explanation": "reverse_dfs / reverse_transition_list disagree with the BFS closure (%s) on %s"
                           % (klass, family if len(tl) > 8 else (tl, finals))}


def work_small(shard):
    n, max_deg, unordered, flen, lo, hi = shard
    rows = rows_for(n, max_deg, unordered)
    prod = Product([rows] * n)
    fins = final_seqs(n, flen)
    out = {"calls": 0, "graphs": 0, "violations": [], "nontrivial": 0, "samples": [], "outcomes": {}}
    for tl in prod.iter_range(lo, hi):
        out["graphs"] += 1
        tabcheck = True
        # history: a call that fails (final state outside the graph) must leave nothing behind for the calls that follow
        for bad in ([n + 1, 0], [n - 1, n + 1], [0, -n - 2, n - 1]):
            try:
                R.reverse_dfs([list(r) for r in tl], bad)
            except Exception:                                # noqa: BLE001
                pass
            out["failing_calls_interleaved"] = out.get("failing_calls_interleaved", 0) + 1
        multi = None
        # the same graph with equal rows given as ONE shared list object (legal: rows are only read)
        shared = {}
        tl_shared = [shared.setdefault(r, list(r)) for r in tl]
        if len(shared) < n:
            out["shared_row_graphs"] = out.get("shared_row_graphs", 0) + 1
            for f in fins[:3]:
                exp, pred = oracle(tl, f)
                try:
                    got = R.reverse_dfs(tl_shared, list(f))
                    tab = R.reverse_transition_list(tl_shared)
                    ok = got == exp and all(sorted(tab[v]) == sorted(pred[v]) for v in range(n))
                except Exception as e:                       # noqa: BLE001
                    got, ok = "%s: %s" % (type(e).__name__, e), False
                if not ok and len(out["violations"]) < 5:
                    c = mk_case(tl, f, ("shared-row-objects", got, exp), "small n=%d" % n)
                    c["config"] = {"shared_rows": True}
                    out["violations"].append(c)
        for f in fins:
            res = check_one(tl, f, table=tabcheck)
            tabcheck = False
            out["calls"] += 1
            if res:
                if len(out["violations"]) < 5:
                    out["violations"].append(mk_case(tl, f, res, "small n=%d" % n))
            else:
                pass
        # non-trivial: some state is co-reachable through two different predecessors or parallel edges
        indeg = [0] * n
        for row in tl:
            for _, v in row:
                indeg[v] += 1
        if max(indeg) >= 2:
            out["nontrivial"] += 1
        if len(out["violations"]) >= 5:
            out["truncated"] = 1
            break
    if out["graphs"] and not out["samples"]:
        out["samples"].append({"transition_list": [list(r) for r in prod.decode(lo)], "final_sequences": len(fins)})
    return out


# ---------------------------------------------------------------------------------------------- ladder

def family_graph(name, size):
    if name == "chain":            # 0 -> 1 -> ... -> size-1, final = last
        return [[(LABEL, i + 1)] if i + 1 < size else [] for i in range(size)], [size - 1]
    if name == "rchain":           # size-1 -> ... -> 0, final = 0
        return [[(LABEL, i - 1)] if i > 0 else [] for i in range(size)], [0]
    if name == "cycle":
        return [[(LABEL, (i + 1) % size)] for i in range(size)], [0]
    if name == "bintree":          # children point to parent; final = root
        return [[(LABEL, (i - 1) // 2)] if i > 0 else [] for i in range(size)], [0]
    if name == "ladder":           # k-wide ladder: each rung fully connected to the next (duplicate-visit blow-up)
        k = 3
        tl = []
        for i in range(size):
            lvl = i // k
            nxt = [(lvl + 1) * k + j for j in range(k) if (lvl + 1) * k + j < size]
            tl.append([(LABEL, t) for t in nxt])
        return tl, [size - 1]
    if name == "dag":              # complete DAG: i -> every j > i (capped fan-out 6)
        return [[(LABEL, j) for j in range(i + 1, min(size, i + 7))] for i in range(size)], [size - 1]
    if name == "manyfinals":       # shallow graph, `size` final states (distinct, then a few repeated many times)
        tl = [[(LABEL, size + (i % 3))] for i in range(size)] + [[(LABEL, size + 1)], [], [(LABEL, 0)]]
        return tl, list(range(size)) + [0, 1] * (size // 2)
    if name in ("manyfinals-desc", "manyfinals-mixed"):      # `size` final states that reach one another, listed in descending / interleaved order
        tl = [[(LABEL, (i + 1) % size), (LABEL, size + (i % 3))] for i in range(size)] + [[(LABEL, size + 1)], [], [(LABEL, 0)], [(LABEL, size + 2)]]
        fin = list(range(size))[::-1] if name.endswith("desc") else list(range(size))[1::2] + list(range(size))[0::2][::-1]
        return tl, fin
    if name == "selfloops":
        return [[(LABEL, i), (LABEL, i + 1 if i + 1 < size else i)] for i in range(size)], [size - 1, size - 1, 0]
    raise ValueError(name)


def work_ladder(shard):
    name, size = shard
    tl, fin = family_graph(name, size)
    out = {"calls": 1, "graphs": 1, "violations": [], "nontrivial": 1, "samples": [], "ladder": 1}
    st, val = budget.run_budgeted(lambda: check_one(tl, fin, table=True), cpu_s=60.0, max_lines=size * 400 + 10**6)
    res = None
    if st == "diverged":
        res = ("no-termination", "budget exceeded", None)
    elif st == "exc":
        res = ("exception", repr(val)[:100], None)
    else:
        res = val
    if res:
        out["violations"].append(mk_case(tl, fin, res, "family=%s size=%d" % (name, size)))
    out["samples"].append({"family": name, "size": size})
    return out


def board_lists(w, l, seed=1):
    tmp = tempfile.mkdtemp(prefix="crverif_c07_")
    try:
        moves, rewards, loose = G.gen_rnd_board(seed, l, w, 0.3, 6, False)
        path = os.path.join(tmp, "b.py")
        G.write_robots(path, l, w, moves, rewards, loose, 0.1, 0.1, 0.1)
        d = CR.read_dict_from_file(path)
    finally:
        shutil.rmtree(tmp, ignore_errors=True)
    return d


def work_board(shard):
    w, l = shard
    out = {"calls": 0, "graphs": 0, "violations": [], "nontrivial": 0, "samples": [], "boards": 1}
    d = board_lists(w, l)
    for key in sorted(d):
        g = d[key]
        tl, fin = g["transition_list"], g["final_states"]
        st, val = budget.run_budgeted(lambda: check_one(tl, fin, table=True), cpu_s=120.0, max_lines=len(tl) * 2000 + 10**6)
        out["calls"] += 1
        out["graphs"] += 1
        out["nontrivial"] += 1
        res = val if st == "ok" else (("no-termination", "budget exceeded", None) if st == "diverged" else ("exception", repr(val)[:100], None))
        if res:
            out["violations"].append(mk_case(tl, fin, res, "board w=%d l=%d %s" % (w, l, key)))
    out["samples"].append({"board": [w, l], "games": sorted(d), "states": [len(d[k]["transition_list"]) for k in sorted(d)]})
    return out


def sparse_cases(n, full):
    """graphs on n nodes in which only a path through 2-3 arbitrarily numbered nodes reaches the final state (so the
    result is a short list of possibly high, non-consecutive indices, in which a missing sort shows)"""
    out = []
    nodes = range(n)
    for i in nodes:
        for j in nodes:
            if i == j:
                continue
            out.append(((i, j), j))
            for k in nodes:
                if k in (i, j):
                    continue
                if full or (i * 7 + j * 3 + k) % 11 == 0:
                    out.append(((i, j, k), k))
    return out


def work_sparse(shard):
    n, full = shard
    out = {"calls": 0, "graphs": 0, "violations": [], "nontrivial": 0, "samples": [], "sparse": 0}
    for path, fin in sparse_cases(n, full):
        tl = [[] for _ in range(n)]
        for a, b in zip(path, path[1:]):
            tl[a].append((LABEL, b))
        if out["calls"] % 5 == 0:
            # history: a call that fails (a final index that is not a state) right before a well-formed call; what the failed call
            # leaves behind must not reach the next one
            try:
                R.reverse_dfs([list(r) for r in tl], [fin, n + 3])
            except Exception:                                # noqa: BLE001
                pass
            out["failed_calls_before_a_checked_call"] = out.get("failed_calls_before_a_checked_call", 0) + 1
        res = check_one(tl, [fin], table=False)
        out["calls"] += 1
        out["graphs"] += 1
        out["sparse"] += 1
        out["nontrivial"] += 1
        if res and len(out["violations"]) < 3:
            c = mk_case(tl, [fin], res, "sparse n=%d path=%s" % (n, "-".join(map(str, path))))
            c["input"] = {"transition_list": [list(r) for r in tl], "final_states": [fin]}
            c["family"] = "sparse"
            out["violations"].append(c)
    out["samples"].append({"family": "sparse path", "n": n, "cases": out["calls"]})
    return out


def _dispatch(shard):
    if shard[0] == "sparse":
        return work_sparse(shard[1:])
    kind = shard[0]
    if kind == "small":
        return work_small(shard[1:])
    if kind == "ladder":
        return work_ladder(shard[1:])
    return work_board(shard[1:])


def plan(ctx):
    shards = []
    spaces = []
    #        n, max_deg, unordered, final-seq length
    small = [(1, 3, False, 3), (2, 3, False, 3), (3, 3, False, 3), (4, 2, False, 2)]
    if ctx.thorough:
        small = [(1, 3, False, 3), (2, 3, False, 3), (3, 3, False, 3), (4, 2, False, 3), (5, 2, True, 2)]
    for n, deg, un, fl in small:
        size = len(rows_for(n, deg, un)) ** n
        spaces.append({"n": n, "max_out_degree": deg, "unordered_successors": un, "final_seq_max_len": fl,
                       "graphs": size, "final_sequences": len(final_seqs(n, fl))})
        for lo, hi in par.ranges(size, ctx.jobs * 4 if size > 5000 else 1):
            shards.append(("small", n, deg, un, fl, lo, hi))
    sizes = [10, 100, 900, 1000, 1100, 5000, 20000]
    for name in ("chain", "rchain", "cycle", "bintree", "ladder", "dag", "selfloops", "manyfinals", "manyfinals-desc", "manyfinals-mixed"):
        for s in sizes + ([33, 40, 65, 70, 130] if name.startswith("manyfinals-") else []):
            shards.append(("ladder", name, s))
    for n, full in ((9, True), (10, True), (12, True), (17, True), (33, False), (65, False), (130, False)):
        shards.append(("sparse", n, full or ctx.thorough and n <= 33))
    boards = [(3, 200), (1, 1500), (40, 10)] if ctx.thorough else [(3, 200), (1, 400)]
    for w, l in boards:
        shards.append(("board", w, l))
    return shards, spaces


def run(ctx):
    shards, spaces = plan(ctx)
    # big shards first for balance
    tot = par.run_shards(_dispatch, shards, ctx.jobs)
    expected_calls = sum(s["graphs"] * s["final_sequences"] for s in spaces)
    truncated = tot.get("truncated", 0)
    if not truncated and tot["calls"] - tot.get("ladder", 0) - 3 * tot.get("boards", 0) - tot.get("sparse", 0) != expected_calls:
        raise par.GuardError("C07: enumerated %d calls, expected %d" % (tot["calls"], expected_calls))
    if not tot.get("violations") and tot["nontrivial"] < 2:
        raise par.GuardError("C07 vacuity guard: no graph with a doubly-reached state")
    cov = {"states": tot["graphs"], "transitions": tot["calls"], "traces_validated_against_impl": tot["calls"],
           "evaluations": tot["calls"], "distinct_nontrivial": tot["nontrivial"],
           "rule": "every directed multigraph in the listed spaces x every final sequence (order and repetitions "
                   "included) is a distinct case; non-trivial = some node has in-degree >= 2 (a state reached through "
                   "two predecessors or a parallel edge), plus every ladder/board graph",
           "spaces": spaces, "sparse_path_graphs_9_to_130_nodes": tot.get("sparse", 0),
           "failing_calls_interleaved": tot.get("failing_calls_interleaved", 0),
           "graphs_also_run_with_shared_row_objects": tot.get("shared_row_graphs", 0), "ladder_graphs": tot.get("ladder", 0), "failed_calls_before_a_checked_call": tot.get("failed_calls_before_a_checked_call", 0), "board_files": tot.get("boards", 0),
           "exhaustive": not truncated, "samples": tot["samples"]}
    return {"coverage": cov, "violations": tot["violations"],
            "assumptions": ["oracle: breadth-first closure over reversed edges written independently in the harness",
                            "graphs beyond 5 nodes are covered only by the listed families and boards"]}


def replay(case):
    fam = case.get("family", "")
    if fam.startswith("family="):
        name, size = fam.split()[0].split("=")[1], int(fam.split()[1].split("=")[1])
        tl, fin = family_graph(name, size)
        st, val = budget.run_budgeted(lambda: check_one(tl, fin), cpu_s=60.0, max_lines=size * 400 + 10**6)
        return repr(val) if (st != "ok" or val) else None
    if fam.startswith("board"):
        parts = fam.split()
        w, l, key = int(parts[1][2:]), int(parts[2][2:]), parts[3]
        g = board_lists(w, l)[key]
        st, val = budget.run_budgeted(lambda: check_one(g["transition_list"], g["final_states"]), cpu_s=120.0,
                                      max_lines=len(g["transition_list"]) * 2000 + 10**6)
        return repr(val) if (st != "ok" or val) else None
    inp = case["input"]
    if case.get("config", {}).get("shared_rows"):
        tl = [tuple(tuple(t) for t in row) for row in inp["transition_list"]]
        shared = {}
        tls = [shared.setdefault(r, list(r)) for r in tl]
        exp, pred = oracle(tl, inp["final_states"])
        try:
            got = R.reverse_dfs(tls, list(inp["final_states"]))
            tab = R.reverse_transition_list(tls)
            ok = got == exp and all(sorted(tab[v]) == sorted(pred[v]) for v in range(len(tl)))
        except Exception as e:                               # noqa: BLE001
            got, ok = repr(e), False
        return None if ok else "shared row objects: %r, expected %r" % (got, exp)
    nn = len(inp["transition_list"])
    for bad in ([nn + 1, 0], [nn - 1, nn + 1], [0, -nn - 2, nn - 1]):
        try:
            R.reverse_dfs([[tuple(t) for t in row] for row in inp["transition_list"]], bad)
        except Exception:                                    # noqa: BLE001
            pass
    res = check_one([[tuple(t) for t in row] for row in inp["transition_list"]], inp["final_states"])
    return repr(res) if res else None
