"""C03 - conditioning removes every dead branch, and only dead branches."""
from .. import par, sweep

PROP = "C03"
RULE = ("every game of the focus-state universe U-F (one Player-1 or probabilistic state with 1..d successors drawn in every sequence "
        "from {self, dead sink, rewarded dead state, two live states, win}, state 0 or behind a P1/P2/probabilistic entry) plus the "
        "listed sink universes; the transition lists at entry to reward solving inside the real solve() are compared position by "
        "position with the prescribed conditioned lists; non-trivial = some state has >= 2 zero-probability successors (classes: "
        "adjacent / separated / all / duplicated / first / last)")
ASSUME = ["observation by wrapping tad.Solver.solve_total_rewards from the harness at import time (method name pinned by the suite)",
          "probabilities compared with relative tolerance 1e-12",
          "games on which solve() legitimately has no result (no-solution error; non-stopping structures that do not return) contribute no comparison"]


def plan(ctx):
    j = ctx.jobs
    P = []
    if ctx.thorough:
        P.append(sweep.family_shards(PROP, "U-F", j, max_deg=5))
        P.append(sweep.universe_shards(PROP, "U-S2", j))
        P.append(sweep.universe_shards(PROP, "U-S3", j))
    else:
        P.append(sweep.family_shards(PROP, "U-F", j, max_deg=4))
        P.append(sweep.universe_shards(PROP, "U-S2", j, frac=4, seed=ctx.seed))
    # non-absorbing, several and player-owned final states
    if ctx.thorough:
        P.append(sweep.universe_shards(PROP, "U-T3", j))
        P.append(sweep.universe_shards(PROP, "U-T4r", j, frac=32, seed=ctx.seed))
    else:
        P.append(sweep.universe_shards(PROP, "U-T3", j, frac=16, seed=ctx.seed))
        P.append(sweep.universe_shards(PROP, "U-T4r", j, frac=512, seed=ctx.seed))
    P.append(sweep.family_shards(PROP, "U-Z", j))
    P.append(sweep.family_shards(PROP, "U-K", j))
    P.append(sweep.family_shards(PROP, "U-M", 1000))
    P.append(sweep.family_shards(PROP, "U-H", 1000))
    P.append(sweep.family_shards(PROP, "U-A", 2000, all_sizes=True) if ctx.thorough else sweep.family_shards(PROP, "U-A", 2000))
    P.append(sweep.family_shards(PROP, "U-G", j, stride=1 if ctx.thorough else 6, offset=ctx.seed))
    P.append(sweep.family_shards(PROP, "U-E", j))
    P.append(sweep.family_shards(PROP, "U-P2", j, stride=1 if ctx.thorough else 3, offset=ctx.seed))
    P.append(sweep.family_shards(PROP, "U-X", j))
    P.append(sweep.universe_shards(PROP, "U-S5r", j, stride=50021 if ctx.thorough else 1000003, seed=ctx.seed))
    P.append(sweep.universe_shards(PROP, "U-S6r", j, stride=20000003 if ctx.thorough else 400000009, seed=ctx.seed))
    P.append(sweep.family_shards(PROP, "U-WIDE", j))
    P.append(sweep.family_shards(PROP, "U-BIG", j))
    P.append(sweep.family_shards(PROP, "U-MF", j))
    from ._plans import debug_log_parts
    P.extend(debug_log_parts(PROP, ctx))
    return P


def _vacuity(tot):
    cl = tot.get("classes", {})
    for need in ("adjacent", "separated", "all-dead", "duplicated-target", "first", "last"):
        if cl.get(need, 0) < 5:
            raise par.GuardError("C03 vacuity guard: class %s has %d members" % (need, cl.get(need, 0)))


def run(ctx):
    return sweep.run_plan(ctx, PROP, plan(ctx), RULE, ASSUME, vacuity=_vacuity)


def replay(case):
    return sweep.replay_game(PROP, case)
