"""C17 - generated file names identify the parameters that produced them."""
import itertools

from .. import gen, par
from ..repo import roberta_generator as G, stochastic_game_from_roborta_board as SG

PROP = "C17"
EDGE = (1, 28, 29, 57, 58, 99)


def spellings(k):
    """doubles that denote k/100: the quotient, the decimal literal, and the results of ordinary arithmetic that lands within a few units
    in the last place of it (1 - (100-k)/100, k*0.01, k/10/10) plus the two neighbouring doubles; the nearest whole percentage of each is k"""
    import math
    x = k / 100
    out = [x, float("0.%02d" % k), 1 - (100 - k) / 100, k * 0.01, k / 10 / 10, math.nextafter(x, 0.0), math.nextafter(x, 1.0)]
    seen, res = set(), []
    for v in out:
        if v not in seen and abs(v * 100 - k) < 1e-9:
            seen.add(v)
            res.append(v)
    return res


def run_spelling(sc, k, value, pos):
    """main() with one probability given as the double `value` (a spelling of k/100); the name must show k at that position"""
    sc.clear()
    kw = dict(seed=0, width=1, length=1, rb=0.1, lb=0.1, tb=0.1, lt=0.3, max_reward=6, force_down=False)
    key = ("rb", "lb", "tb", "lt")[pos]
    kw[key] = value
    e = gen.run_main(**kw)
    files = sc.files()
    if e is not None or len(files) != 1:
        return ("C17/spelling-refused", repr(e), None, "main() with %s=%r: outcome %r, files %r" % (key, value, e, files))
    m = gen.NAME_RE.match(files[0])
    want = [10, 10, 10, 30]
    want[pos] = k
    if not m or [int(x) for x in m.groups()[4:8]] != want:
        return ("C17/name-misstates-parameters", files[0], None,
                "probability %s = %r (that is %d/100 up to the last bits of the double) produced %r, expected the whole percentages %r" % (key, value, k, files[0], want))
    return None


def expect_name(seed, w, l, r, rb, lb, tb, lt, fd):
    return "robot_%d_w%d_l%d_r%d_rb%d_lb%d_tb%d_lt%d%s.py" % (seed, w, l, r, rb, lb, tb, lt, "_force_down" if fd else "")


def run_cli(sc, params):
    """params = (seed, w, l, r, k_rb, k_lb, k_tb, k_lt, fd) with whole-percent probabilities; returns finding or None, name"""
    seed, w, l, r, rb, lb, tb, lt, fd = params
    sc.clear()
    e = gen.run_main(seed=seed, width=w, length=l, rb=rb / 100, lb=lb / 100, tb=tb / 100, lt=lt / 100, max_reward=r, force_down=fd)
    if e is not None:
        return ("C17/generator-refused", repr(e), None, "accepted parameter set %r was refused: %r" % (params, e)), None
    files = sc.files()
    if len(files) != 1:
        return ("C17/file-count", files, None, "parameter set %r created %r" % (params, files)), None
    m = gen.NAME_RE.match(files[0])
    if not m:
        return ("C17/name-format", files[0], expect_name(*params), "file name %r does not state the parameters in the documented format" % files[0]), files[0]
    got = tuple(int(x) for x in m.groups()[:8]) + (m.group(9) is not None,)
    if got != params:
        return ("C17/name-misstates-parameters", files[0], expect_name(*params),
                "parameters %r produced %r, which states %r" % (params, files[0], got)), files[0]
    return None, files[0]


def run_manual(sc, params):
    """params = (w, l, r, k_rb, k_lb, k_tb, fd)"""
    w, l, r, rb, lb, tb, fd = params
    sc.clear()
    # the maximal reward and the only down-only tile sit in the LAST tile; the first row starts with larger entries than the last
    # one (the name must be derived from the whole board, not from its first / lexicographically greatest row)
    last = (l - 1, w - 1)
    moves = [[(3 if (fd and (i, j) == last) else (2 if (i, j) == (0, 0) else 1)) for j in range(w)] for i in range(l)]
    if fd and l * w == 1:
        moves = [[3]]
    rewards = [[(r if (i, j) == last else (min(1, r) if (i, j) == (0, 0) else 0)) for j in range(w)] for i in range(l)]
    loose = [[0] * w for _ in range(l)]
    try:
        SG.create_sg_from_board(moves, rewards, loose, rb / 100, lb / 100, tb / 100)
    except Exception as e:                                   # noqa: BLE001
        return ("C17/manual-exception", repr(e), None, "create_sg_from_board failed on %r: %r" % (params, e)), None
    files = sc.files()
    if len(files) != 1:
        return ("C17/manual-file-count", files, None, "manual entry %r created %r" % (params, files)), None
    m = gen.MANUAL_RE.match(files[0])
    if not m:
        return ("C17/manual-name-format", files[0], None, "manual file name %r has an unexpected format" % files[0]), files[0]
    got = tuple((float(x) if "." in x else int(x)) for x in m.groups()[:6]) + (m.group(7) is not None,)
    if got != params:
        return ("C17/manual-name-misstates-parameters", files[0], None, "manual parameters %r produced %r, which states %r" % (params, files[0], got)), files[0]
    return None, files[0]


def work(shard):
    kind, items = shard
    out = {"runs": 0, "violations": [], "n_violations": 0, "names": {}, "samples": []}
    if kind == "pairs":
        return work_pairs(items)
    if kind == "spellings":
        with gen.Scratch() as sc:
            for k, value, pos in items:
                f = run_spelling(sc, k, value, pos)
                out["runs"] += 1
                if f:
                    out["n_violations"] += 1
                    if len([c for c in out["violations"] if c["klass"] == f[0]]) < 2:
                        out["violations"].append({"kind": "params", "klass": f[0], "input": {"entry": "spelling", "params": [k, value, pos]}, "config": {},
                                                  "observed": f[1], "expected": f[2], "explanation": f[3]})
        return out
    prev = None
    last_fd = None
    with gen.Scratch() as sc:
        for params in items:
            f, name = (run_cli if kind == "cli" else run_manual)(sc, params)
            hist = [list(h) for h in (last_fd, prev) if h is not None]
            prev = params
            if params[-1]:
                last_fd = params
            out["runs"] += 1
            if name is not None:
                out["names"].setdefault(kind + ":" + name, []).append(list(params))
            if f:
                out["n_violations"] += 1
                if len([c for c in out["violations"] if c["klass"] == f[0]]) < 2:
                    out["violations"].append({"kind": "params", "klass": f[0], "input": {"entry": kind, "params": list(params), "earlier_calls_in_this_process": hist}, "config": {},
                                              "observed": f[1], "expected": f[2], "explanation": f[3]})
    if items:
        out["samples"].append({"entry": kind, "params": list(items[0])})
    return out


RULE = ("prob_to_str for k = 1..99 on every double that denotes k/100 (the quotient, the text '0.kk', 1-(100-k)/100, k*0.01, k/10/10 and the two neighbouring doubles), the arithmetic spellings also through main() in each probability position; roberta_generator.main() in a scratch directory for "
        "every k in each of the four probability positions, all 99^2 (robot, light) pairs, and the full product {1,28,29,57,58,99}^4 x seed {0,7} x "
        "sizes {1x1,2x3} x max reward {1,6} x force-down; the manual entry point for every k in each of its three positions and a product; every ordered pair of 5 parameter sets called in one process; the "
        "created path must parse back to exactly the parameters and the map parameters -> name must be injective (dictionary over all runs); "
        "non-trivial = every run (each is a distinct accepted whole-percent parameter set)")
ASSUME = ["file-name grammar: robot_<seed>_w<w>_l<l>_r<r>_rb<k>_lb<k>_tb<k>_lt<k>[_force_down].py and manual_robot_w.._l.._r.._rb.._lb.._tb.._[force_down].py"]


PAIR_SETS = [(0, 1, 1, 6, 10, 10, 10, 30, False), (0, 1, 1, 6, 10, 10, 10, 30, True), (3, 2, 3, 1, 29, 57, 58, 1, False),
             (3, 3, 2, 1, 29, 57, 58, 1, True), (7, 1, 4, 2, 99, 1, 50, 99, False)]


def work_pairs(items):
    """history leg: every ordered pair (and the triple a, b, a) of calls of main() in ONE process; each file name must state
    the parameters of the call that created it, whatever was called before"""
    out = {"runs": 0, "violations": [], "n_violations": 0, "names": {}, "samples": []}
    for a, b in items:
        with gen.Scratch() as sc:
            for k, params in enumerate((a, b, a)):
                f, name = run_cli(sc, params)
                out["runs"] += 1
                if f:
                    out["n_violations"] += 1
                    if len([c for c in out["violations"] if c["klass"] == f[0]]) < 2:
                        out["violations"].append({"kind": "params", "klass": f[0],
                                                  "input": {"entry": "cli", "params": list(params), "earlier_calls_in_this_process": [list(x) for x in (a, b, a)[:k]]},
                                                  "config": {}, "observed": f[1], "expected": f[2],
                                                  "explanation": "after the calls %r in the same process: %s" % ([list(x) for x in (a, b, a)[:k]], f[3])})
                    break
    out["samples"].append({"entry": "cli pairs", "pair": [list(items[0][0]), list(items[0][1])]})
    return out


def merge_names(a, b):
    for k, v in b.items():
        a.setdefault(k, []).extend(v)


def run(ctx):
    # direct function leg
    direct = []
    for k in range(1, 100):
        for val in spellings(k):
            try:
                s = G.prob_to_str(val)
            except Exception as e:                           # noqa: BLE001
                s = repr(e)
            if s != str(k):
                direct.append({"kind": "params", "klass": "C17/prob_to_str", "input": {"entry": "prob_to_str", "params": [k]}, "config": {},
                               "observed": s, "expected": str(k), "explanation": "prob_to_str(%r) = %r, expected %r" % (val, s, str(k))})
    cli = []
    base = (0, 1, 1, 6, 10, 10, 10, 30, False)
    for pos in range(4, 8):
        for k in range(1, 100):
            p = list(base)
            p[pos] = k
            cli.append(tuple(p))
    pairs = range(1, 100)
    for a in (range(1, 100)):
        for b in pairs:
            cli.append((0, 1, 1, 6, a, b, 10, 30, False))
    for rb, lb, tb, lt in itertools.product(EDGE, repeat=4):
        for seed in (0, 7):
            for (w, l) in ((1, 1), (2, 3)):
                for r in (1, 6):
                    for fd in (False, True):
                        cli.append((seed, w, l, r, rb, lb, tb, lt, fd))
    for r in (999999, 10 ** 6, 1234567, 1234568, 10 ** 17, 2 ** 64):       # maximum rewards with many digits
        for fd in (False, True):
            cli.append((3, 2, 2, r, 10, 10, 10, 30, fd))
    for sd in (2 ** 53, 2 ** 53 + 1, 2 ** 64 - 1, 2 ** 64, 10 ** 30 + 1):       # seeds a double cannot hold
        cli.append((sd, 1, 1, 6, 10, 10, 10, 30, False))
    cli = sorted(set(cli))
    manual = []
    mbase = (1, 1, 2, 10, 10, 10, False)
    for pos in range(3, 6):
        for k in range(1, 100):
            p = list(mbase)
            p[pos] = k
            manual.append(tuple(p))
    for rb, lb, tb in itertools.product(EDGE, repeat=3):
        for (w, l) in ((1, 1), (2, 3)):
            for r in (1, 6):
                for fd in (False, True):
                    manual.append((w, l, r, rb, lb, tb, fd))
    for (w, l) in ((2, 2), (3, 2)):
        for r in (2.5, 0.5):
            for fd in (False, True):
                for k in (10, 29):
                    manual.append((w, l, r, k, 5, 25, fd))
    manual = sorted(set(manual), key=repr)
    shards = []
    n = ctx.jobs * 2
    for i in range(n):
        if cli[i::n]:
            shards.append(("cli", cli[i::n]))
    for i in range(ctx.jobs):
        if manual[i::ctx.jobs]:
            shards.append(("manual", manual[i::ctx.jobs]))
    pairs = [(a, b) for a in PAIR_SETS for b in PAIR_SETS]
    shards.append(("pairs", pairs))
    spell = [(k, v, pos) for k in range(1, 100) for v in spellings(k)[2:] for pos in ((k % 4,) if not ctx.thorough else range(4))]
    for i in range(ctx.jobs):
        if spell[i::ctx.jobs]:
            shards.append(("spellings", spell[i::ctx.jobs]))
    tot = {"runs": 0, "violations": list(direct), "n_violations": len(direct), "names": {}, "samples": []}
    import multiprocessing as mp
    res = par.run_shards(work_nomerge, shards, ctx.jobs)
    for r in res["parts"]:
        tot["runs"] += r["runs"]
        tot["n_violations"] += r["n_violations"]
        for c in r["violations"]:
            if len([x for x in tot["violations"] if x["klass"] == c["klass"]]) < 2:
                tot["violations"].append(c)
        merge_names(tot["names"], r["names"])
        tot["samples"].extend(r["samples"][:1])
    # injectivity: one name, one parameter set
    for name, plist in sorted(tot["names"].items()):
        distinct = sorted(set(tuple(p) for p in plist))
        if len(distinct) > 1:
            tot["n_violations"] += 1
            if len([x for x in tot["violations"] if x["klass"] == "C17/name-collision"]) < 2:
                tot["violations"].append({"kind": "params", "klass": "C17/name-collision",
                                          "input": {"entry": name.split(":")[0], "params": list(distinct[0]), "other": list(distinct[1])}, "config": {},
                                          "observed": name, "expected": "distinct names",
                                          "explanation": "parameter sets %r and %r share the file %s" % (distinct[0], distinct[1], name)})
    if tot["runs"] != len(cli) + len(manual) + 3 * len(pairs) + len(spell) and not res.get("skipped_shards") and not tot["violations"]:
        raise par.GuardError("C17: %d runs executed, %d planned" % (tot["runs"], len(cli) + len(manual) + 3 * len(pairs) + len(spell)))
    cov = {"states": tot["runs"] + 198, "transitions": tot["runs"] + 198, "traces_validated_against_impl": tot["runs"] + 198,
           "evaluations": tot["runs"] + 198, "distinct_nontrivial": tot["runs"], "cli_runs": len(cli), "manual_runs": len(manual), "ordered_call_pairs_in_one_process": len(pairs), "runs_with_other_doubles_denoting_k_over_100": len(spell),
           "prob_to_str_calls": 198, "distinct_names": len(tot["names"]), "rule": RULE, "exhaustive": not res.get("skipped_shards"),
           "samples": tot["samples"][:4]}
    return {"coverage": cov, "violations": tot["violations"], "assumptions": ASSUME}


def work_nomerge(shard):
    return {"parts": [work(shard)], "n_violations": 0}


def replay(case):
    i = case["input"]
    if i["entry"] == "prob_to_str":
        k = i["params"][0]
        bad = [v for v in spellings(k) if G.prob_to_str(v) != str(k)]
        return "prob_to_str(%r) != %r" % (bad[0], str(k)) if bad else None
    if i["entry"] == "spelling":
        with gen.Scratch() as sc:
            f = run_spelling(sc, *i["params"])
        return f[3] if f else None
    if i.get("earlier_calls_in_this_process") and "other" not in i:
        with gen.Scratch() as sc:
            f, name = (run_cli if i["entry"] == "cli" else run_manual)(sc, tuple(i["params"]))
            if f:
                return f[3]
        with gen.Scratch() as sc:
            for h in i["earlier_calls_in_this_process"]:
                (run_cli if i["entry"] == "cli" else run_manual)(sc, tuple(h))
            f, name = (run_cli if i["entry"] == "cli" else run_manual)(sc, tuple(i["params"]))
            return ("after earlier calls %r: %s" % (i["earlier_calls_in_this_process"], f[3])) if f else None
    with gen.Scratch() as sc:
        names = []
        for params in [i["params"]] + ([i["other"]] if "other" in i else []):
            params = tuple(params)
            f, name = (run_cli if i["entry"] == "cli" else run_manual)(sc, params)
            if f and "other" not in i:
                return f[3]
            names.append(name)
        if "other" in i and names[0] == names[1] and names[0] is not None:
            return "both parameter sets produce %s" % names[0]
    return None
