"""C16 - the saved report states exactly what was computed."""
import copy
import itertools
import os
import shutil
import sys
import tempfile

from .. import batch as B, budget, par
from ..repo import conditionalrewards as CR

PROP = "C16"
STEMS = ["g", "g_1", "robot_1_w2_l2", "a1_b2_c3", "coin_game_2_copy", "py_warmup", "games.v2", "manual_robot_w2_l2_r5.0_rb10_lb7_tb29_"]
STYLES = ["repr", "generator", "expressions", "calls"]
_CACHE = {}
# legal dictionary keys that a report writer built on string formatting may mangle
ODD_NAMES = ["G_{2}", "{n_states}_chain", "reach{goal}", "{0}", "{}", "100%", "%s and %d", "it's", 'say "hi"', "a#b", "2nd_game", "class", "back\\slash",
             "two  spaces ", "\u00fcn\u00ef", "a:b: c", "$HOME", "name_no_prune_x", "x" * 300]


def games():
    if "g" not in _CACHE:
        _CACHE["g"] = dict(B.alphabet())
    return _CACHE["g"]


def check_file(names, stem, style):
    """returns list of findings for one input file"""
    # an entry "g=>odd name" puts the alphabet game g into the file under the name after "=>"
    d = {(n.split("=>", 1)[1] if "=>" in n else n): copy.deepcopy(games()[n.split("=>", 1)[0]]) for n in names}
    text = B.render(d, style)
    tmp = tempfile.mkdtemp(prefix="crverif_c16_")
    cwd = os.getcwd()
    argv = sys.argv
    try:
        os.mkdir(os.path.join(tmp, "inputs"))
        os.mkdir(os.path.join(tmp, "outputs"))
        # environment: a longer report of the same name left behind by an earlier run; the new report must replace it entirely
        for stale in (stem, "ln_" + stem):
            with open(os.path.join(tmp, "outputs", stale + ".txt"), "w", encoding="utf-8") as f:
                f.write(B.STALE_REPORT)
        path = os.path.join("inputs", stem + ".py")
        with open(os.path.join(tmp, path), "w", encoding="utf-8") as f:
            f.write(text)
        # the same file addressed in three ways (dots in the directory part must not matter)
        how = {"repr": path, "generator": "./" + path, "expressions": os.path.join("..", os.path.basename(tmp), path)}.get(style)
        if how is None:
            # "calls": the file is addressed through a symbolic link of another name; the report is named after what the user typed
            link = os.path.join("inputs", "ln_" + stem + ".py")
            os.symlink(stem + ".py", os.path.join(tmp, link))
            how, report_stem = link, "ln_" + stem
        else:
            report_stem = stem
        os.chdir(tmp)
        # 1. the reader returns the games the file textually denotes
        try:
            read = CR.read_dict_from_file(path)
        except Exception as e:                               # noqa: BLE001
            return [("C16/reader-exception", "%s: %s" % (type(e).__name__, e), None, "read_dict_from_file failed on a %s rendering" % style)]
        if read != d or repr(read) != repr(d):
            return [("C16/reader-differs", repr(read)[:300], repr(d)[:300], "read_dict_from_file returned a different dictionary (%s rendering)" % style)]
        # 2. what the batch run computes for this dictionary (same process, same arithmetic)
        st, expect = budget.run_budgeted(lambda: CR.run_games(copy.deepcopy(d)), cpu_s=60.0, max_lines=100_000_000)
        if st != "ok":
            return [("C16/batch-crash", repr(expect), None, "run_games failed on the file's dictionary")]
        # 3. the real command line: python conditionalrewards.py -f inputs/<stem>.py -s
        sys.argv = ["conditionalrewards.py", "-f", how, "-s"]
        st, val = budget.run_budgeted(CR.main, cpu_s=60.0, max_lines=100_000_000)
        if st != "ok":
            return [("C16/main-crash", repr(val), None, "main() -f %s -s failed: %r" % (how, val))]
        files = sorted(os.listdir("outputs"))
        untouched = "ln_" + stem + ".txt" if report_stem == stem else stem + ".txt"
        if files != sorted([stem + ".txt", "ln_" + stem + ".txt"]) or open(os.path.join("outputs", untouched), encoding="utf-8").read() != B.STALE_REPORT:
            return [("C16/wrong-report-name", files, [report_stem + ".txt"], "outputs/ contains %r after running on -f %s; the report belongs in %s.txt and the other file must stay as it was"
                     % (files, how, report_stem))]
        want_inputs = sorted([stem + ".py"] + (["ln_" + stem + ".py"] if report_stem != stem else []))
        if sorted(os.listdir("inputs")) != want_inputs:
            return [("C16/inputs-touched", sorted(os.listdir("inputs")), want_inputs, "inputs/ was modified")]
        body = open(os.path.join("outputs", report_stem + ".txt"), encoding="utf-8").read()
        try:
            blocks = B.parse_report(body)
        except ValueError as e:
            return [("C16/report-format", str(e), None, "the report does not follow the line-per-field layout: %s" % e)]
        why = B.compare_report(blocks, expect)
        if why:
            return [("C16/report-differs", why, None, "file %s (%s rendering, games %r): %s" % (path, style, list(names), why))]
        return []
    finally:
        sys.argv = argv
        os.chdir(cwd)
        shutil.rmtree(tmp, ignore_errors=True)


# ---- rewrite leg: one path, rewritten in place and read again in the same process -------------------------------------------------
_RW_TEMPLATE = """{
 '%s': {'rewards': [0, %d, 0],
            'players': ['Player 1', 'Probabilistic', 'Probabilistic'],
            'transition_list': [[('%s', 1)], [(1.0, 2)], [(1.0, %d)]],
            'final_states': [2]},
}
"""
# same length: 0, 1, 2, 3 differ in one character each (a reward, an action name, the game's name); 4 (thorough tier) is longer
RW_TEXTS = [_RW_TEMPLATE % ("game_1", 3, "a", 2), _RW_TEMPLATE % ("game_1", 5, "a", 2), _RW_TEMPLATE % ("game_1", 3, "b", 2),
            _RW_TEMPLATE % ("game_2", 3, "a", 2), _RW_TEMPLATE % ("game_1", 7, "a", 2) + "# regenerated\n"]
RW_STAMP = 1_700_000_000_000_000_000


def check_rewrites(history):
    """history = ((text index, pin the modification time), ...): inputs/rw.py is written, read and run through main -s after every step"""
    import ast
    tmp = tempfile.mkdtemp(prefix="crverif_c16rw_")
    cwd, argv = os.getcwd(), sys.argv
    try:
        os.mkdir(os.path.join(tmp, "inputs"))
        os.mkdir(os.path.join(tmp, "outputs"))
        os.chdir(tmp)
        path = os.path.join("inputs", "rw.py")
        for step, (idx, pin) in enumerate(history):
            with open(path, "w", encoding="utf-8") as f:
                f.write(RW_TEXTS[idx])
            if pin:
                os.utime(path, ns=(RW_STAMP, RW_STAMP))
            d = ast.literal_eval(RW_TEXTS[idx])
            where = "step %d of the rewrite history %r of inputs/rw.py (text index, modification time pinned)" % (step + 1, list(history))
            try:
                read = CR.read_dict_from_file(path)
            except Exception as e:                               # noqa: BLE001
                return [("C16/rewrite-reader-exception", "%s: %s" % (type(e).__name__, e), None, "read_dict_from_file failed at " + where)]
            if read != d or repr(read) != repr(d):
                return [("C16/rewrite-stale", repr(read)[:300], repr(d)[:300],
                         "read_dict_from_file did not return the games the file denotes now, at " + where)]
            st, expect = budget.run_budgeted(lambda: CR.run_games(copy.deepcopy(d)), cpu_s=60.0, max_lines=100_000_000)
            if st != "ok":
                return [("C16/batch-crash", repr(expect), None, "run_games failed on the file's dictionary")]
            sys.argv = ["conditionalrewards.py", "-f", path, "-s"]
            st, val = budget.run_budgeted(CR.main, cpu_s=60.0, max_lines=100_000_000)
            if st != "ok":
                return [("C16/main-crash", repr(val), None, "main() -f %s -s failed at %s: %r" % (path, where, val))]
            try:
                blocks = B.parse_report(open(os.path.join("outputs", "rw.txt"), encoding="utf-8").read())
            except (OSError, ValueError) as e:
                return [("C16/report-format", str(e), None, "the report is missing or does not follow the line-per-field layout at %s: %s" % (where, e))]
            why = B.compare_report(blocks, expect)
            if why:
                return [("C16/rewrite-report-differs", why, None, "the report does not state what the file denotes now, at %s: %s" % (where, why))]
        return []
    finally:
        sys.argv = argv
        os.chdir(cwd)
        shutil.rmtree(tmp, ignore_errors=True)


def work_rewrites(shard):
    out = {"rw_histories": 0, "rw_steps": 0, "violations": [], "n_violations": 0}
    for pos, h in enumerate(shard):
        f = check_rewrites(h)
        out["rw_histories"] += 1
        out["rw_steps"] += len(h)
        for x in f:
            out["n_violations"] += 1
            if len([c for c in out["violations"] if c["klass"] == x[0]]) < 2:
                out["violations"].append({"kind": "history", "klass": x[0], "input": {"rewrite_history": [list(s) for s in h]},
                                          "config": {"rewrite_histories_before_in_the_same_process": [[list(s) for s in g] for g in shard[:pos]]},
                                          "observed": x[1], "expected": x[2], "explanation": x[3]})
    return out


def work(shard):
    out = {"files": 0, "blocks": 0, "violations": [], "n_violations": 0, "nontrivial": 0, "samples": []}
    for pos, (names, stem, style) in enumerate(shard):
        f = check_file(names, stem, style)
        out["files"] += 1
        out["blocks"] += 2 * len(names)
        if any(n in ("x", "x_no_prune", "g_1", "m_1", "b2", "game_a") for n in names):
            out["nontrivial"] += 1
        for x in f:
            out["n_violations"] += 1
            if len([c for c in out["violations"] if c["klass"] == x[0]]) < 2:
                out["violations"].append({"kind": "history", "klass": x[0], "input": {"games": list(names), "stem": stem, "style": style},
                                          "config": {"files_processed_before_in_the_same_process": [[list(a), b, c] for a, b, c in shard[:pos]]},
                                          "observed": x[1], "expected": x[2], "explanation": x[3]})
    if shard:
        out["samples"].append({"games": list(shard[0][0]), "stem": shard[0][1], "rendering": shard[0][2]})
    return out


RULE = ("input files = every ordered selection of 0..k games from the 7-game batch alphabet (solvable, unsolvable, malformed; None strategies, "
        "empty strategy lists, a 42-state board game for long float vectors) x 6 file stems (underscores, digits, stems ending in 'p'/'y') x 4 textual renderings of the same dictionary "
        "(plain repr, pretty-printed with a comment preamble, arithmetic expressions instead of literals, indented text with calls of built-in functions addressed through a symbolic link of another name); each is run through the real "
        "main() -f inputs/<stem>.py -s in a scratch directory and the report is parsed by an independent parser; every worker process handles its files one after the other under the same relative path names (inputs/<stem>.py rewritten with different games), so state kept between files shows as a difference; non-trivial = the file "
        "contains a failing game, a game with None/empty strategy entries or the 42-state game; plus files whose games carry odd names (braces, percent signs, quotes, '#', backslash, leading digit, keyword, 300 characters); plus the rewrite leg: one path inputs/rw.py rewritten in place and re-read / re-run through main -s in the same process, "
        "every history of 3 (thorough: 4) rewrites over 4 (5) texts - four of the same length that differ in one character (a reward, an action name, the game's name), one longer - "
        "x {modification time pinned to one fixed instant, left to the clock}; after every step the reader must return what the file denotes now and the report must state it")
ASSUME = ["report layout: blocks introduced by a line of 160 '=', 14 lines per block, label padded to 24 characters then ': '",
          "expected values come from calling run_games on a deep copy of the same dictionary in the same process (floats round-trip through repr)"]


def run(ctx):
    names = list(games().keys())
    kmax = 3 if ctx.thorough else 2
    files = []
    for k in range(0, kmax + 1):
        for p in itertools.permutations(names, k):
            combos = itertools.product(STEMS, STYLES)
            for stem, style in combos:
                files.append((p, stem, style))
    for odd in ODD_NAMES:
        for style in STYLES:
            files.append((("g=>" + odd,), "g", style))
            files.append((("x_no_prune=>" + odd, "g=>" + odd + "_2"), "g_1", style))
    chunks = [files[i::ctx.jobs * 2] for i in range(ctx.jobs * 2)]
    tot = par.run_shards(work, [c for c in chunks if c], ctx.jobs)
    if tot["files"] != len(files) and not tot.get("skipped_shards"):
        raise par.GuardError("C16: %d of %d files" % (tot["files"], len(files)))
    # rewrite leg: every history of `depth` rewrites of one path over the text alphabet x {modification time pinned, not pinned}
    depth, ntexts = (4, 5) if ctx.thorough else (3, 4)
    hist = list(itertools.product(list(itertools.product(range(ntexts), (True, False))), repeat=depth))
    rw = par.run_shards(work_rewrites, [c for c in (hist[i::ctx.jobs * 2] for i in range(ctx.jobs * 2)) if c], ctx.jobs)
    if rw.get("rw_histories") != len(hist) and not rw.get("skipped_shards"):
        raise par.GuardError("C16: %r of %d rewrite histories" % (rw.get("rw_histories"), len(hist)))
    tot["violations"] = tot["violations"] + rw.get("violations", [])
    cov = {"states": tot["files"] + rw.get("rw_steps", 0), "transitions": tot["blocks"], "traces_validated_against_impl": tot["files"] + rw.get("rw_histories", 0),
           "rewrite_histories": rw.get("rw_histories", 0), "rewrite_steps": rw.get("rw_steps", 0), "rewrite_depth": depth, "rewrite_texts": ntexts,
           "evaluations": tot["files"], "distinct_nontrivial": tot["nontrivial"], "report_blocks_compared": tot["blocks"],
           "stems": STEMS, "renderings": STYLES, "max_games_per_file": kmax, "rule": RULE, "exhaustive": True,
           "samples": tot["samples"][:4]}
    return {"coverage": cov, "violations": tot["violations"], "assumptions": ASSUME}


def replay(case):
    i = case["input"]
    if "rewrite_history" in i:
        h = tuple(tuple(s) for s in i["rewrite_history"])
        f = par.in_forked_child(lambda: check_rewrites(h))
        if f:
            return f[0][3]
        before = case.get("config", {}).get("rewrite_histories_before_in_the_same_process", [])
        for g in before:
            check_rewrites(tuple(tuple(s) for s in g))
        f = check_rewrites(h)
        return ("after %d other rewrite histories in the same process: %s" % (len(before), f[0][3])) if f else None
    # in isolation first - in a forked child, so that the attempt leaves nothing behind in this process
    f = par.in_forked_child(lambda: check_file(tuple(i["games"]), i["stem"], i["style"]))
    if f:
        return f[0][3]
    # not reproducible in isolation: replay the files this worker had processed before (a defect that depends on the history of the process)
    before = case.get("config", {}).get("files_processed_before_in_the_same_process", [])
    for a, b, c in before:
        check_file(tuple(a), b, c)
    f = check_file(tuple(i["games"]), i["stem"], i["style"])
    return ("after %d other files were processed in the same process: %s" % (len(before), f[0][3])) if f else None
