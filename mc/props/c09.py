"""C09 - malformed games are rejected with ValueError, never solved (deviation-bounded enumeration)."""
import copy
import itertools
import re
import time

from .. import budget, par, sweep, universe as U
from ..inputs import small_example_games
from ..repo import tad, conditionalrewards as CR, P1, P2, PR, NOSOL

PROP = "C09"


def bases(ctx):
    out = []
    Un = sweep.universe("U-S2d2")
    step = 29 if ctx.thorough else 151
    for idx in range(ctx.seed % step, Un.size, step):
        players, tl, finals = Un.structure_at(idx)
        out.append(dict(rewards=[1, 2, 0, 0], players=players, transition_list=[list(r) for r in tl], final_states=finals))
    for g in small_example_games():
        out.append(copy.deepcopy(g))
    # a three-way probabilistic state, several finals, final listed twice
    out.append(dict(rewards=[0, 1, 0, 0, 0], players=[P2, PR, P1, PR, PR],
                    transition_list=[[("a", 1), ("b", 2)], [(0.25, 0), (0.25, 3), (0.5, 4)], [("a", 3), ("b", 4), ("c", 1)], [(1, 3)], [(1, 4)]],
                    final_states=[4, 4, 3]))
    # legal oddities: a zero-probability branch, probability written as int 1, float and large rewards, finals in descending order
    out.append(dict(rewards=[0.5, 1000000, 0, 0, 0], players=[PR, P1, PR, PR, PR],
                    transition_list=[[(0, 2), (0.5, 1), (0.5, 3)], [("go", 4), ("go_back", 0)], [(1, 2)], [(1, 3)], [(1.0, 4)]],
                    final_states=[4, 3]))
    out.sort(key=lambda g: (len(g["players"]), sum(len(r) for r in g["transition_list"])))
    return out


def deviations(g):
    """(label, function applying the deviation in place) for every rule x every position"""
    n = len(g["players"])
    devs = []

    def add(label, fn):
        devs.append((label, fn))

    add("rewards one shorter", lambda x: x["rewards"].pop())
    add("rewards one longer", lambda x: x["rewards"].append(0))
    add("players one shorter", lambda x: x["players"].pop())
    add("players one longer", lambda x: x["players"].append(PR))
    add("transition_list one shorter", lambda x: x["transition_list"].pop())
    add("transition_list one longer", lambda x: x["transition_list"].append([(1, 0)]))
    for i in range(n):
        for v in (-1, -0.5):
            add("reward %r at state %d" % (v, i), lambda x, i=i, v=v: x["rewards"].__setitem__(i, v))
        for v in ("Player 3", "", None, "player 1"):
            add("player %r at state %d" % (v, i), lambda x, i=i, v=v: x["players"].__setitem__(i, v))
        for v in (["Player 1"], {"Player 1": 0}, []):       # unknown players that cannot be hashed
            add("player %r at state %d" % (v, i), lambda x, i=i, v=v: x["players"].__setitem__(i, copy.deepcopy(v)))
    for k in range(len(g["final_states"])):
        for v in (-1, n, n + 5):
            add("final index %d at position %d" % (v, k), lambda x, k=k, v=v: x["final_states"].__setitem__(k, v))
    for v in (-1, n):
        add("extra final index %d appended" % v, lambda x, v=v: x["final_states"].append(v))
    add("no final state", lambda x: x.__setitem__("final_states", []))
    for s in range(n):
        row = g["transition_list"][s]
        add("state %d without transitions ([])" % s, lambda x, s=s: x["transition_list"].__setitem__(s, []))
        add("state %d transitions None" % s, lambda x, s=s: x["transition_list"].__setitem__(s, None))
        add("state %d transitions a tuple" % s, lambda x, s=s: x["transition_list"].__setitem__(s, tuple(x["transition_list"][s])))
        add("state %d transitions an int" % s, lambda x, s=s: x["transition_list"].__setitem__(s, 5))
        add("state %d transitions 0" % s, lambda x, s=s: x["transition_list"].__setitem__(s, 0))
        add("state %d transitions a list of lists" % s, lambda x, s=s: x["transition_list"].__setitem__(s, [list(t) for t in x["transition_list"][s]]))
        for t in range(n):
            # the SAME list object as another state's row, where that row is not legal for this kind of state (a probabilistic row on a
            # player state or the other way round): whatever validation did for the first occurrence of the object must be done again
            if t != s and (g["players"][s] == PR) != (g["players"][t] == PR):
                add("state %d transitions the same list object as state %d" % (s, t),
                    lambda x, s=s, t=t: x["transition_list"].__setitem__(s, x["transition_list"][t]))
        for k in range(len(row)):
            for v in (-1, n, n + 5, 1.0, "1", None):
                add("successor %r at state %d transition %d" % (v, s, k),
                    lambda x, s=s, k=k, v=v: x["transition_list"][s].__setitem__(k, (x["transition_list"][s][k][0], v)))
            add("1-tuple at state %d transition %d" % (s, k),
                lambda x, s=s, k=k: x["transition_list"][s].__setitem__(k, (x["transition_list"][s][k][0],)))
            add("3-tuple at state %d transition %d" % (s, k),
                lambda x, s=s, k=k: x["transition_list"][s].__setitem__(k, x["transition_list"][s][k] + (0,)))
            add("list instead of tuple at state %d transition %d" % (s, k),
                lambda x, s=s, k=k: x["transition_list"][s].__setitem__(k, list(x["transition_list"][s][k])))
            if g["players"][s] == PR:
                for v in ("x", None, "0.5", "1", " .5 "):
                    add("probability %r at state %d transition %d" % (v, s, k),
                        lambda x, s=s, k=k, v=v: x["transition_list"][s].__setitem__(k, (v, x["transition_list"][s][k][1])))
            else:
                for v in (1, None, 0.5, b"a"):
                    add("action %r at state %d transition %d" % (v, s, k),
                        lambda x, s=s, k=k, v=v: x["transition_list"][s].__setitem__(k, (v, x["transition_list"][s][k][1])))
    return devs


def site(label):
    """the part of the description a deviation touches; two deviations on the same site (or on a row and one of its
    slots) may cancel or override each other, so such pairs are not enumerated"""
    m = re.search(r"state (\d+) transition (\d+)", label)
    if m:
        return ("slot", int(m.group(1)), int(m.group(2)))
    m = re.match(r"state (\d+) ", label)
    if m:
        return ("row", int(m.group(1)))
    m = re.match(r"(reward|player) .* at state (\d+)", label)
    if m:
        return (m.group(1), int(m.group(2)))
    m = re.match(r"final index .* at position (\d+)", label)
    if m:
        return ("final", int(m.group(1)))
    for key in ("rewards one", "players one", "transition_list one"):
        if label.startswith(key):
            return ("len", key)
    return ("other", label.split()[0] + label.split()[1])


def conflicting(l1, l2):
    a, b = site(l1), site(l2)
    if a == b:
        return True
    if a[0] in ("row", "slot") and b[0] in ("row", "slot") and a[1] == b[1] and "row" in (a[0], b[0]):
        return True
    return False


def apply(g, fns):
    x = copy.deepcopy(g)
    try:
        for fn in fns:
            fn(x)
    except (IndexError, TypeError, AttributeError, KeyError):
        return None
    return x


def observe(game):
    """returns list of findings for one (malformed) game"""
    f = []
    for prune in (True, False):
        def fn():
            g = copy.deepcopy(game)
            return tad.StochasticGame(prune_states=prune, **g).solve()
        st, val = budget.run_budgeted(fn, cpu_s=1.0, max_lines=500_000)
        if st == "exc" and isinstance(val, ValueError):
            continue
        if st == "ok":
            f.append(("C09/solved-malformed", "returned %s" % (repr(val)[:120]), "ValueError", "solve(prune=%s) returned a result" % prune))
        elif st == "diverged":
            f.append(("C09/no-termination", "no result", "ValueError", "solve(prune=%s) did not terminate" % prune))
        else:
            f.append(("C09/wrong-exception", "%s: %s" % (type(val).__name__, val), "ValueError",
                      "solve(prune=%s) raised %s: %s instead of ValueError" % (prune, type(val).__name__, val)))
        break
    # batch half
    def fb():
        return CR.run_games({"g": copy.deepcopy(game)})
    st, val = budget.run_budgeted(fb, cpu_s=2.0, max_lines=1_000_000)
    if st != "ok":
        f.append(("C09/batch-crash", ("%s: %s" % (type(val).__name__, val)) if st == "exc" else "no termination", "recorded message",
                  "run_games crashed instead of recording the error: %s" % (("%s: %s" % (type(val).__name__, val)) if st == "exc" else "no termination")))
    else:
        r = val
        ok = isinstance(r, dict) and list(r.keys()) == ["g", "g_no_prune"] \
            and isinstance(r["g"].get("msg"), str) and r["g"]["msg"].startswith("Error while solving the game:") \
            and r["g_no_prune"].get("msg") == "Game not solved" \
            and all(r[k].get(fld) is None for k in r for fld in ("rewards", "probabilities", "final_strategies", "reachability_strategies"))
        if not ok:
            f.append(("C09/batch-not-recorded", {k: r[k].get("msg") for k in r} if isinstance(r, dict) else repr(r)[:100],
                      {"g": "Error while solving the game: ...", "g_no_prune": "Game not solved"},
                      "run_games did not record the rejection: %r" % ({k: r[k].get("msg") for k in r} if isinstance(r, dict) else r)))
    return f


def primer_for(game):
    """a WELL-FORMED larger game that contains the malformed game's rows verbatim: the deviated game padded with absorbing
    states until every (integer, non-negative) successor and final index is in range.  Only exists when being out of range
    is the game's only defect; used to start the malformed game from a non-initial state of the process (validation must
    not remember anything from an earlier, larger game)."""
    try:
        n = len(game["players"])
        idx = [t[1] for row in game["transition_list"] for t in row] + list(game["final_states"])
        if not idx or not all(isinstance(i, int) and not isinstance(i, bool) and i >= 0 for i in idx):
            return None
        m = max(idx)
        if m < n or not (len(game["rewards"]) == n == len(game["transition_list"])):
            return None
        g = copy.deepcopy(game)
        for k in range(n, m + 1):
            g["players"].append(PR)
            g["rewards"].append(0)
            g["transition_list"].append([(1, k)])
        return g
    except (TypeError, IndexError, KeyError, AttributeError):
        return None


def solve_quietly(game):
    for prune in (True, False):
        def fn():
            return tad.StochasticGame(prune_states=prune, **copy.deepcopy(game)).solve()
        budget.run_budgeted(fn, cpu_s=0.3, confirm=False)


def observe_after(history, game):
    """solve the games of `history` first (same process), then the malformed game must still be rejected"""
    for h in history:
        solve_quietly(h)
    f = []
    for prune in (True, False):
        def fn():
            return tad.StochasticGame(prune_states=prune, **copy.deepcopy(game)).solve()
        st, val = budget.run_budgeted(fn, cpu_s=1.0, max_lines=500_000)
        if st == "exc" and isinstance(val, ValueError):
            continue
        what = "returned a result" if st == "ok" else ("did not terminate" if st == "diverged" else "raised %s: %s" % (type(val).__name__, val))
        f.append(("C09/accepted-after-history", what, "ValueError",
                  "after solving %d well-formed game(s) in the same process, solve(prune=%s) of the malformed game %s" % (len(history), prune, what)))
        break
    return f


def observe_batch_after(base, game):
    """the malformed game placed AFTER a well-formed one in the same batch must still be recorded as rejected"""
    def fb():
        return CR.run_games({"a_ok": copy.deepcopy(base), "g": copy.deepcopy(game)})
    st, val = budget.run_budgeted(fb, cpu_s=2.0, max_lines=2_000_000)
    if st != "ok":
        what = ("%s: %s" % (type(val).__name__, val)) if st == "exc" else "no termination"
        return [("C09/batch-crash-after-good-game", what, "recorded message",
                 "run_games on {well-formed game, malformed game} crashed instead of recording the error: %s" % what)]
    r = val
    ok = isinstance(r, dict) and list(r.keys()) == ["a_ok", "a_ok_no_prune", "g", "g_no_prune"] \
        and isinstance(r["g"].get("msg"), str) and r["g"]["msg"].startswith("Error while solving the game:") \
        and r["g_no_prune"].get("msg") == "Game not solved" and r["g"].get("rewards") is None and r["g_no_prune"].get("rewards") is None
    if not ok:
        got = {k: r[k].get("msg") for k in r} if isinstance(r, dict) else repr(r)[:100]
        return [("C09/batch-not-recorded-after-good-game", got, {"g": "Error while solving the game: ...", "g_no_prune": "Game not solved"},
                 "run_games on {well-formed game, malformed game} did not record the rejection of the second: %r" % (got,))]
    return []


def observe_debuglog(game):
    """configuration: the tool's DEBUG log level (-l d); the malformed game must still be rejected with ValueError"""
    import logging
    root = logging.getLogger()
    if not any(isinstance(h, logging.NullHandler) for h in root.handlers):
        root.addHandler(logging.NullHandler())
    old_level = root.level
    logging.disable(logging.NOTSET)
    root.setLevel(logging.DEBUG)
    f = []
    try:
        for prune in (True, False):
            def fn():
                return tad.StochasticGame(prune_states=prune, **copy.deepcopy(game)).solve()
            st, val = budget.run_budgeted(fn, cpu_s=2.0, max_lines=2_000_000)
            if st == "exc" and isinstance(val, ValueError):
                continue
            what = "returned a result" if st == "ok" else ("did not terminate" if st == "diverged" else "raised %s: %s" % (type(val).__name__, val))
            f.append(("C09/debug-log-level", what, "ValueError", "with the root logger at DEBUG level, solve(prune=%s) of the malformed game %s" % (prune, what)))
            break
    finally:
        root.setLevel(old_level)
        logging.disable(logging.CRITICAL)
    return f


def observe_mutated_object(base, fns):
    """history: the game object is built from the well-formed description, THEN the description is changed (the object's lists are
    the caller's lists; the attributes are also re-assigned), then solve() is called: it must raise ValueError like a fresh object"""
    f = []
    for prune in (True, False):
        d = copy.deepcopy(base)
        try:
            sg = tad.StochasticGame(prune_states=prune, **d)
            for fn in fns:
                fn(d)
        except (IndexError, TypeError, AttributeError, KeyError):
            return []
        sg.rewards, sg.players, sg.transition_list, sg.final_states = d["rewards"], d["players"], d["transition_list"], d["final_states"]
        st, val = budget.run_budgeted(sg.solve, cpu_s=1.0, max_lines=500_000)
        if st == "exc" and isinstance(val, ValueError):
            continue
        what = "returned a result" if st == "ok" else ("did not terminate" if st == "diverged" else "raised %s: %s" % (type(val).__name__, val))
        f.append(("C09/accepted-after-mutation", what, "ValueError",
                  "a game object built from a well-formed description and then given the malformed one: solve(prune=%s) %s" % (prune, what)))
        break
    return f


def observe_base(game):
    f = []
    for prune in (True, False):
        def fn():
            return tad.StochasticGame(prune_states=prune, **copy.deepcopy(game)).solve()
        st, val = budget.run_budgeted(fn, cpu_s=0.3, max_lines=500_000, confirm=False)
        if st == "ok" or st == "timeout":
            continue
        if st == "exc" and isinstance(val, ValueError) and str(val) == NOSOL and prune:
            continue
        f.append(("C09/well-formed-rejected", repr(val)[:150], "a result or the no-solution error",
                  "a well-formed base game was rejected: %r" % (val,)))
    return f


def mk_case(game, labels, finding):
    klass, obs, exp, expl = finding
    return {"kind": "deviation", "klass": klass, "input": game, "config": {"deviations": list(labels)},
            "observed": obs, "expected": exp, "explanation": "%s; deviation(s): %s" % (expl, "; ".join(labels) or "none")}


def work(shard):
    out = {"bases": 0, "games": 0, "executions": 0, "violations": [], "n_violations": 0, "samples": [],
           "single": 0, "pairs": 0, "rules": {}}
    B = shard["bases"]
    for bi in range(shard["lo"], shard["hi"]):
        g = B[bi]
        out["bases"] += 1
        t0 = time.time()
        for f in observe_base(g):
            out["n_violations"] += 1
            out["violations"].append(mk_case(g, [], f))
        base_quick = (time.time() - t0) < 0.25 and len(g["players"]) <= 13
        devs = deviations(g)
        combos = [(d,) for d in devs]
        if shard["pairs"] and bi < shard["pair_bases"]:
            combos += [c for c in itertools.combinations(devs, 2) if not conflicting(c[0][0], c[1][0])]
        for combo in combos:
            x = apply(g, [fn for _, fn in combo])
            if x is None:
                continue
            labels = [l for l, _ in combo]
            out["games"] += 1
            out["executions"] += 3
            if len(combo) == 1:
                out["single"] += 1
                rule = labels[0].split(" at ")[0].split(" appended")[0]
                rule = " ".join(w for w in rule.split() if not w.lstrip("-").replace(".", "").isdigit())
                out["rules"][rule] = out["rules"].get(rule, 0) + 1
            else:
                out["pairs"] += 1
            found = observe(x)
            pr = primer_for(x) if (len(combo) == 1 and base_quick) else None
            if pr is not None:
                # the well-formed base was solved at the start of this shard; now a larger well-formed game containing
                # the malformed game's rows is solved, and the malformed game must still be rejected afterwards
                hist = [pr]
                out["primed"] = out.get("primed", 0) + 1
                out["executions"] += 4
                for f in observe_after(hist, x):
                    c = mk_case(x, labels, f)
                    c["config"]["history"] = hist
                    found.append(None)
                    out["n_violations"] += 1
                    if len([v for v in out["violations"] if v["klass"] == f[0]]) < 2:
                        out["violations"].append(c)
                found = [f for f in found if f is not None]
            if len(combo) == 1 and base_quick:
                out["executions"] += 2
                out["mutated_objects"] = out.get("mutated_objects", 0) + 1
                for f in observe_mutated_object(g, [fn for _, fn in combo]):
                    c = mk_case(x, labels, f)
                    c["config"]["mutated_object_from"] = g
                    out["n_violations"] += 1
                    if len([v for v in out["violations"] if v["klass"] == f[0]]) < 2:
                        out["violations"].append(c)
            if len(combo) == 1 and base_quick and len(g["players"]) <= 5:
                out["executions"] += 2
                out["debuglog"] = out.get("debuglog", 0) + 1
                for f in observe_debuglog(x):
                    c = mk_case(x, labels, f)
                    c["config"]["debuglog"] = True
                    out["n_violations"] += 1
                    if len([v for v in out["violations"] if v["klass"] == f[0]]) < 2:
                        out["violations"].append(c)
            if len(combo) == 1 and base_quick:
                out["executions"] += 4
                out["batch_after_good"] = out.get("batch_after_good", 0) + 1
                for f in observe_batch_after(g, x):
                    c = mk_case(x, labels, f)
                    c["config"]["batch_after"] = g
                    out["n_violations"] += 1
                    if len([v for v in out["violations"] if v["klass"] == f[0]]) < 2:
                        out["violations"].append(c)
            for f in found:
                out["n_violations"] += 1
                if len([c for c in out["violations"] if c["klass"] == f[0]]) < 2:
                    out["violations"].append(mk_case(x, labels, f))
            if out["n_violations"] >= 10:
                out["truncated"] = 1
                break
        if not out["samples"]:
            out["samples"].append({"base": g, "deviations": [l for l, _ in devs[:3]] + ["..."], "count": len(devs)})
        if out.get("truncated"):
            break
    return out


RULE = ("bases: every k-th structure of the degree-2 sink universe, all small example inputs and one hand-written game with a 3-way state "
        "and repeated finals; deviation operators: one per documented rule at every position (state, transition, tuple slot), boundary "
        "values n and -1 included; bound: 0 deviations (must be accepted), all single deviations, all pairs on the smallest bases; both "
        "pruning modes and the batch runner; every single deviation is also re-run after solving, in the same process, its well-formed "
        "base and (for out-of-range indices) a larger well-formed game containing the same rows; every deviated game is distinct and non-trivial (each breaks a rule by construction)")
ASSUME = ["oracle by construction: each operator breaks a documented rule; pairs that touch the same site (same list length, same "
          "slot, a row and one of its slots) can cancel or override each other and are not enumerated, every other pair leaves at least one rule broken",
          "values the rules do not mention (True as an index, None as a reward, a top-level None) are not in the alphabet"]


def run(ctx):
    B = bases(ctx)
    pair_bases = 24 if ctx.thorough else 8
    shards = [{"bases": B, "lo": i, "hi": i + 1, "pairs": True, "pair_bases": pair_bases} for i in range(len(B))]
    tot = par.run_shards(work, shards, ctx.jobs)
    if not tot.get("violations") and tot["single"] < 1000:
        raise par.GuardError("C09 vacuity guard: %d single deviations" % tot["single"])
    cov = {"states": tot["games"], "transitions": tot["executions"], "traces_validated_against_impl": tot["games"],
           "evaluations": tot["games"], "distinct_nontrivial": tot["games"], "bases": tot["bases"],
           "single_deviations": tot["single"], "deviation_pairs": tot["pairs"],
           "single_deviations_replayed_after_a_well_formed_primer_containing_their_rows": tot.get("primed", 0),
           "single_deviations_run_in_a_batch_after_their_well_formed_base": tot.get("batch_after_good", 0),
           "single_deviations_run_with_debug_log_level": tot.get("debuglog", 0),
           "single_deviations_applied_to_an_already_constructed_object": tot.get("mutated_objects", 0), "pairs_on_smallest_bases": pair_bases,
           "single_deviations_per_rule": tot["rules"], "rule": RULE, "exhaustive": not tot.get("truncated"),
           "samples": tot["samples"][:3]}
    return {"coverage": cov, "violations": tot["violations"], "assumptions": ASSUME}


def replay(case):
    g = case["input"]
    if case["config"].get("mutated_object_from"):
        base = case["config"]["mutated_object_from"]
        devs = dict(deviations(base))
        fns = [devs[l] for l in case["config"]["deviations"] if l in devs]
        f = observe_mutated_object(base, fns)
        return f[0][3] if f else None
    if case["config"].get("debuglog"):
        f = observe_debuglog(g)
        return f[0][3] if f else None
    if case["config"].get("batch_after"):
        f = observe_batch_after(case["config"]["batch_after"], g)
        return f[0][3] if f else None
    if case["config"].get("history"):
        f = observe_after(case["config"]["history"], g)
        return f[0][3] if f else None
    if not case["config"]["deviations"]:
        f = observe_base(g)
    else:
        f = observe(g)
    for x in f:
        if x[0] == case["klass"]:
            return x[3]
    return f[0][3] if f else None
