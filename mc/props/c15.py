"""C15 - random boards are reproducible, in range and honour their parameters."""
import itertools
import shutil
import os
import subprocess
import sys

from .. import budget, gen, par
from ..repo import roberta_generator as G, REPO

PROP = "C15"
LOOSE_PROBS = (0.01, 0.3, 0.5, 0.99)
FREQ_PROBS = (0.004, 0.01, 0.125, 0.3, 0.333, 0.5, 0.99, 0.996)      # includes values that are not whole percentages


# ------------------------------------------------------------------------------------------- range / shape leg

def shape_findings(board, length, width, max_reward, force_down):
    moves, rewards, loose = board
    for name, m in (("moves", moves), ("rewards", rewards), ("loose_tiles", loose)):
        if not isinstance(m, list) or len(m) != length or any(not isinstance(r, list) or len(r) != width for r in m):
            return "%s does not have %d rows of %d entries" % (name, length, width)
    for row in rewards:
        for x in row:
            if isinstance(x, bool) or not isinstance(x, int) or not (0 <= x <= max_reward):
                return "reward %r is not an integer in [0, %d]" % (x, max_reward)
    for row in loose:
        for x in row:
            if x not in (0, 1) or isinstance(x, bool):
                return "loose-tile flag %r is not 0 or 1" % (x,)
    allowed = (0, 1, 2, 3) if force_down else (0, 1, 2)
    for row in moves:
        for x in row:
            if x not in allowed or isinstance(x, bool):
                return "arrow %r not in %r (force_down=%s)" % (x, allowed, force_down)
        if force_down and 3 not in row:
            return "force-down is set but row %r has no down-only tile" % (row,)
    return None


def work_shape(shard):
    seeds, sizes = shard
    out = {"calls": 0, "violations": [], "n_violations": 0, "samples": [], "loose": {}, "tiles": {}, "order_differential_calls": 0}
    prev = None
    last_fd = None
    made = []
    for seed in seeds:
        for (w, l) in sizes:
            for mr in ((1, 2, 6) if (seed % 50 or (w, l) != (2, 2)) else (1, 2, 6, 1023, 5000, 10 ** 17, 2 ** 64)):      # very large maximum rewards on a few calls
                for p in LOOSE_PROBS:
                    for fd in (False, True):
                        if mr >= 10 ** 6 and out.get("skipped_after_divergence") is not None:
                            out["skipped_after_divergence"] += 1     # a violation is already recorded; do not let the process grow further
                            continue
                        try:
                            if mr >= 10 ** 6:
                                # the cost of a board must not grow with the maximum reward: 2 CPU-seconds, then a deterministic line budget
                                st, val = budget.run_budgeted(lambda: G.gen_rnd_board(seed, l, w, p, mr, fd), cpu_s=2.0, max_lines=2_000_000)
                                if st == "exc":
                                    raise val
                                if st != "ok":
                                    out["skipped_after_divergence"] = 0
                                    raise RuntimeError("no board after 2 CPU-seconds and, run again, after 2,000,000 executed lines "
                                                       "(the same call with max_reward=6 needs a few hundred)")
                                b = val
                            else:
                                b = G.gen_rnd_board(seed, l, w, p, mr, fd)
                            why = shape_findings(b, l, w, mr, fd)
                            exc = None
                        except Exception as e:               # noqa: BLE001
                            b, why, exc = None, "exception %r" % (e,), type(e).__name__
                        out["calls"] += 1
                        if (w, l) in ((1, 1), (2, 2), (3, 2), (1, 4)) and seed % 4 == 0:
                            made.append(([seed, l, w, p, mr, fd], _digest(b) if b is not None else "exception " + str(exc)))
                        if b is not None and why is None:
                            key = repr(p)
                            out["loose"][key] = out["loose"].get(key, 0) + sum(sum(r) for r in b[2])
                            out["tiles"][key] = out["tiles"].get(key, 0) + w * l
                        if why:
                            out["n_violations"] += 1
                            if len(out["violations"]) < 2:
                                hist = [h for h in (last_fd, prev) if h is not None]
                                out["violations"].append(mk("C15/shape-or-range", {"leg": "shape", "seed": seed, "length": l, "width": w, "prob_loose_tile": p,
                                                            "max_reward": mr, "force_down": fd, "earlier_calls_in_this_process": hist}, repr(b)[:300], None,
                                                            "gen_rnd_board(seed=%d, length=%d, width=%d, p=%r, max_reward=%d, force_down=%s): %s" % (seed, l, w, p, mr, fd, why)))
                        prev = [seed, l, w, p, mr, fd]
                        if fd:
                            last_fd = prev
    if made:
        diff = order_differential(made)
        if diff is None:
            raise par.HarnessError("C15: the order-differential process failed")
        out["order_differential_calls"] += len(made)
        for c, here, there in diff[:2]:
            out["n_violations"] += 1
            out["violations"].append(mk("C15/depends-on-earlier-calls", {"leg": "order", "call": c, "calls": [x for x, _ in made]}, here, there,
                                        "gen_rnd_board%r gives a different board when the %d calls of this shard are made in the opposite order in a "
                                        "new process: a board depends on the calls made before it" % (tuple(c), len(made))))
    out["samples"].append({"leg": "shape", "seed": seeds[0], "sizes": len(sizes)})
    return out


def mk(klass, inp, obs, exp, expl):
    return {"kind": "params", "klass": klass, "input": inp, "config": {}, "observed": obs, "expected": exp, "explanation": expl}


# ---------------------------------------------------------------------------------------- reproducibility leg

PARAM_SETS = [(0, 2, 2, 0.3, 6, False), (0, 2, 2, 0.3, 6, True), (7, 3, 1, 0.5, 2, False), (47, 1, 4, 0.99, 1, True)]
OPS = ["gen0", "gen1", "gen2", "gen3", "foreign-random", "foreign-seed"]


def explore_reproducibility(depth):
    """BFS over call sequences; a state is the pseudo-random generator's internal state (canonical: hash of getstate())"""
    import random
    refs = {}
    findings = []
    seen = set()
    transitions = 0
    for seq in itertools.chain.from_iterable(itertools.product(OPS, repeat=k) for k in range(1, depth + 1)):
        random.seed(12345)
        for op in seq:
            if op == "foreign-random":
                random.random()
            elif op == "foreign-seed":
                random.seed(99)
            else:
                i = int(op[3])
                res = G.gen_rnd_board(*PARAM_SETS[i])
                if i not in refs:
                    refs[i] = res
                elif res != refs[i] and not findings:
                    findings.append(mk("C15/not-reproducible", {"leg": "reproducibility", "sequence": list(seq), "params": list(PARAM_SETS[i])},
                                       repr(res), repr(refs[i]),
                                       "after the call sequence %r gen_rnd_board%r returned a board different from its first call" % (list(seq), PARAM_SETS[i])))
            transitions += 1
            seen.add(hash(random.getstate()))
    return findings, len(seen), transitions, refs


def _boards_in_new_process(param_sets):
    code = ("import sys; sys.path.insert(0, %r); sys.dont_write_bytecode = True\n"
            "import roberta_generator as G\n"
            "print(repr([G.gen_rnd_board(*p) for p in %r]))\n" % (REPO, list(param_sets)))
    env = dict(os.environ, PYTHONHASHSEED="7")
    r = subprocess.run([sys.executable, "-c", code], capture_output=True, text=True, env=env, timeout=120)
    if r.returncode != 0:
        return None, r.stderr[-300:]
    import ast
    return ast.literal_eval(r.stdout.strip()), None


def other_process_boards():
    """every parameter set in a process of its own (another hash seed): the board a set gives with no history at all"""
    out = []
    for ps in PARAM_SETS:
        b, err = _boards_in_new_process([ps])
        if b is None:
            return None, err
        out.append(b[0])
    return out, None


def _digest(b):
    import hashlib
    return hashlib.sha1(repr(b).encode()).hexdigest()[:16]


def order_differential(calls):
    """the same calls made in the opposite order in a new process must give the same boards (no call may depend on the calls before it);
    returns a list of (call, digest here, digest there) that differ, or None if the second process failed"""
    code = ("import sys, hashlib; sys.path.insert(0, %r); sys.dont_write_bytecode = True\n"
            "import roberta_generator as G\n"
            "out = []\n"
            "for p in %r:\n"
            "    try:\n"
            "        out.append(hashlib.sha1(repr(G.gen_rnd_board(*p)).encode()).hexdigest()[:16])\n"
            "    except Exception as e:\n"
            "        out.append('exception ' + type(e).__name__)\n"
            "print(repr(out))\n" % (REPO, [c for c, _ in reversed(calls)]))
    env = dict(os.environ, PYTHONHASHSEED="11")
    r = subprocess.run([sys.executable, "-c", code], capture_output=True, text=True, env=env, timeout=600)
    if r.returncode != 0:
        return None
    import ast
    there = list(reversed(ast.literal_eval(r.stdout.strip())))
    return [(c, d, t) for (c, d), t in zip(calls, there) if d != t]


# --------------------------------------------------------------------------------------------- frequency leg

class Scripted:
    """stands in for the `random` module as seen by roberta_generator: answers are scripted"""

    def __init__(self, answers, default=0.5):
        self.answers = list(answers)
        self.default = default
        self.i = 0

    def seed(self, s):
        self.i = 0

    def random(self):
        if self.i < len(self.answers):
            v = self.answers[self.i]
        else:
            v = self.default
        self.i += 1
        return v

    def choices(self, population, weights=None, k=1):
        return [population[0]] * k

    def randrange(self, a, b=None):
        return a


def work_frequency(shard):
    M, length, width, tile, max_reward = shard
    out = {"calls": 0, "violations": [], "n_violations": 0, "samples": [], "boundary_answers": 0}
    real = G.random
    ntiles = length * width
    try:
        grid = [(k + 0.5) / M for k in range(M)]
        for p in FREQ_PROBS:
            ulp = 2.0 ** -53
            boundary = [0.0, ulp, p - p * ulp, p, 1 - ulp]
            loose_count = 0
            for ur in grid + boundary:
                row_loose = 0
                for ul in grid + (boundary if ur in boundary[:2] + boundary[-1:] else []):
                    answers = [0.5] * (2 * ntiles)
                    answers[2 * tile] = ur
                    answers[2 * tile + 1] = ul
                    G.random = Scripted(answers)
                    b = G.gen_rnd_board(0, length, width, p, max_reward, False)
                    out["calls"] += 1
                    i, j = divmod(tile, width)
                    r, lo = b[1][i][j], b[2][i][j]
                    if ur in boundary or ul in boundary:
                        out["boundary_answers"] += 1
                    if isinstance(r, bool) or not isinstance(r, int) or not (0 <= r <= max_reward):
                        out["n_violations"] += 1
                        if len(out["violations"]) < 2:
                            out["violations"].append(mk("C15/reward-out-of-range", {"leg": "frequency", "M": M, "length": length, "width": width, "tile": tile,
                                                        "max_reward": max_reward, "p": p, "answer_reward": ur, "answer_loose": ul}, r, "0..%d" % max_reward,
                                                        "pseudo-random answer %r gives tile reward %r outside [0, %d]" % (ur, r, max_reward)))
                    want = 1 if ul < p else 0
                    if lo != want:
                        out["n_violations"] += 1
                        if len([c for c in out["violations"] if c["klass"] == "C15/loose-flag"]) < 2:
                            out["violations"].append(mk("C15/loose-flag", {"leg": "frequency", "M": M, "length": length, "width": width, "tile": tile,
                                                        "max_reward": max_reward, "p": p, "answer_reward": ur, "answer_loose": ul}, lo, want,
                                                        "loose-tile probability %r and pseudo-random answer %r give flag %r" % (p, ul, lo)))
                    if ul in grid and ur in grid:
                        row_loose += lo
                loose_count += row_loose if ur in grid else 0
            frac = loose_count / float(M * M)
            if abs(frac - p) > 2.0 / M:
                out["n_violations"] += 1
                out["violations"].append(mk("C15/loose-frequency", {"leg": "frequency", "M": M, "length": length, "width": width, "tile": tile,
                                            "max_reward": max_reward, "p": p}, frac, p,
                                            "over an equidistributed grid of %d x %d pseudo-random answers the loose-tile frequency is %.4f for requested %r" % (M, M, frac, p)))
    finally:
        G.random = real
    out["samples"].append({"leg": "frequency", "grid": M, "board": [length, width], "tile": tile})
    return out


# ----------------------------------------------------------------------------------------------- refusal leg

SEEDS = (-1, 0, 1)
SIZES = (-1, 0, 1, 2)
PROBS = (-0.1, 0, 1e-9, 0.5, 1 - 1e-9, 1, 1.1)


def valid(seed, w, l, rb, lb, lt, tb, mr):
    return seed >= 0 and w >= 1 and l >= 1 and mr >= 1 and all(0 < p < 1 for p in (rb, lb, lt, tb))


def work_refusal(shard):
    out = {"calls": 0, "violations": [], "n_violations": 0, "samples": [], "refused": 0, "accepted": 0}
    seed, w = shard
    for l, mr in itertools.product(SIZES, SIZES):
        for rb, lb, lt, tb in itertools.product(PROBS, repeat=4):
            try:
                G.check_input(seed, w, l, rb, lb, lt, tb, mr)
                got = "accepted"
            except ValueError:
                got = "refused"
            except Exception as e:                           # noqa: BLE001
                got = "exception %r" % (e,)
            out["calls"] += 1
            want = "accepted" if valid(seed, w, l, rb, lb, lt, tb, mr) else "refused"
            out[want] += 1
            if got != want:
                out["n_violations"] += 1
                if len(out["violations"]) < 2:
                    out["violations"].append(mk("C15/range-check", {"leg": "refusal", "args": [seed, w, l, rb, lb, lt, tb, mr]}, got, want,
                                                "check_input(seed=%r, width=%r, length=%r, robot=%r, light=%r, loose=%r, tile=%r, max_reward=%r): %s, documented ranges say %s"
                                                % (seed, w, l, rb, lb, lt, tb, mr, got, want)))
    out["samples"].append({"leg": "refusal", "seed": seed, "width": w})
    return out


ENTRY_GRID = [dict(seed=sd, width=w, length=l, rb=0.1, lb=0.05, tb=0.25, lt=lt, max_reward=mr, force_down=fd)
              for sd in (0, 3, 7) for (w, l) in ((1, 1), (2, 2), (3, 2), (2, 3)) for mr in (1, 2, 6, 9) for lt in (0.3, 0.99) for fd in (False, True)]


def work_entry(shard):
    """through main(): the three games written for a parameter set must be the games of the board that gen_rnd_board returns for the same
    seed, size, loose-tile probability, maximum reward and force-down flag (bisimilar to the rule model of that board)"""
    from .. import roborta as RB
    from ..repo import conditionalrewards as CR
    out = {"entry_runs": 0, "violations": [], "n_violations": 0, "calls": 0}
    for params in shard:
        why = None
        with gen.Scratch() as sc:
            e = gen.run_main(**params)
            files = sc.files()
            if e is not None or len(files) != 1:
                why = "main() raised %r and left %r" % (e, files)
            else:
                d = CR.read_dict_from_file(os.path.join("inputs", files[0]))
        out["entry_runs"] += 1
        if why is None:
            moves, rew, loose = G.gen_rnd_board(params["seed"], params["length"], params["width"], params["lt"], params["max_reward"], params["force_down"])
            for variant, key in (("A", "game_a"), ("B", "game_b"), ("C", "game_c")):
                gg = RB.game_graph(d.get(key)) if isinstance(d, dict) and key in d else None
                if gg is None:
                    why = "%s missing or malformed in the written file" % key
                    break
                i2, gm = RB.model(variant, moves, rew, loose, params["rb"], params["lb"], params["tb"])
                ok = RB.bisimilar(gg[0], gg[1], i2, gm)[0]
                if not ok:
                    why = ("%s of the written file is not the game of the board gen_rnd_board(seed=%d, length=%d, width=%d, p=%r, max_reward=%d, "
                           "force_down=%s) = %r" % (key, params["seed"], params["length"], params["width"], params["lt"], params["max_reward"],
                                                    params["force_down"], (moves, rew, loose)))
                    break
        if why:
            out["n_violations"] += 1
            if len(out["violations"]) < 2:
                out["violations"].append(mk("C15/command-line-board-differs", {"leg": "entry", "params": params}, why[:300], "the games of the board for these parameters",
                                            "python roberta_generator.py with %r: %s" % (params, why)))
    return out


STALE_PAIRS = [  # two accepted parameter sets that are written to the SAME file name (names carry whole percentages only)
    (dict(seed=0, width=5, length=5, rb=0.1, lb=0.1, tb=0.1, lt=0.296, max_reward=6, force_down=False),
     dict(seed=0, width=5, length=5, rb=0.1, lb=0.1, tb=0.1, lt=0.304, max_reward=6, force_down=False)),
    (dict(seed=3, width=2, length=2, rb=0.1, lb=0.05, tb=0.25, lt=0.3, max_reward=6, force_down=False),
     dict(seed=3, width=2, length=2, rb=0.104, lb=0.05, tb=0.25, lt=0.3, max_reward=6, force_down=False)),
]


def stale_file_findings():
    """environment: a file of the same name left behind by an earlier run in the same directory; the second run's file must hold the
    games of the second parameter set"""
    from .. import roborta as RB
    from ..repo import conditionalrewards as CR
    out, n = [], 0
    for first, second in STALE_PAIRS:
        with gen.Scratch() as sc:
            e1 = gen.run_main(**first)
            e2 = gen.run_main(**second)
            n += 2
            files = sc.files()
            why = None
            if e1 is not None or e2 is not None or len(files) != 1:
                why = "calls raised %r / %r and left %r" % (e1, e2, files)
            else:
                d = CR.read_dict_from_file(os.path.join("inputs", files[0]))
        if why is None:
            moves, rew, loose = G.gen_rnd_board(second["seed"], second["length"], second["width"], second["lt"], second["max_reward"], second["force_down"])
            for variant, key in (("A", "game_a"), ("B", "game_b"), ("C", "game_c")):
                gg = RB.game_graph(d.get(key)) if isinstance(d, dict) and key in d else None
                i2, gm = RB.model(variant, moves, rew, loose, second["rb"], second["lb"], second["tb"])
                if gg is None or not RB.bisimilar(gg[0], gg[1], i2, gm)[0]:
                    why = "%s in the file is not the game of the second parameter set" % key
                    break
        if why:
            out.append(mk("C15/stale-file-kept", {"leg": "stale", "first": first, "second": second}, why, "the second set's games",
                          "running the generator with %r and then with %r in the same directory: %s" % (first, second, why)))
    return out, n


def main_refusals():
    """through main(): every single and double deviation from a valid parameter set must raise ValueError and write nothing"""
    base = dict(seed=0, width=2, length=2, rb=0.1, lb=0.1, tb=0.1, lt=0.3, max_reward=6)
    bad = {"seed": [-1], "width": [0, -1], "length": [0, -1], "max_reward": [0, -1],
           "rb": [0.0, 1.0, -0.1, 1.1, float("nan"), float("inf")], "lb": [0.0, 1.0, -0.1, 1.1, float("nan")],
           "tb": [0.0, 1.0, -0.1, 1.1, float("nan")], "lt": [0.0, 1.0, -0.1, 1.1, float("nan"), float("-inf")]}
    singles = [((k, v),) for k in bad for v in bad[k]]
    doubles = [((k1, v1), (k2, v2)) for (k1, k2) in itertools.combinations(sorted(bad), 2) for v1 in bad[k1] for v2 in bad[k2]]
    out = []
    n = 0
    with gen.Scratch() as sc:
        for devs in singles + doubles:
            for fd in (False, True):
                params = dict(base, force_down=fd)
                params.update(dict(devs))
                sc.clear()
                e = gen.run_main(**params)
                n += 1
                files = sc.files()
                if not isinstance(e, ValueError) or files:
                    if len(out) < 2:
                        out.append(mk("C15/main-refusal", {"leg": "main-refusal", "params": params}, [repr(e), files], "ValueError, nothing written",
                                      "main() with out-of-range %r: outcome %r, inputs/ contains %r" % (dict(devs), e, files)))
        # a directory that has no inputs/ yet: a refused call must leave the directory as it found it
        os.rmdir("inputs")
        for devs in singles:
            params = dict(base, force_down=False)
            params.update(dict(devs))
            before = sorted(os.listdir("."))
            e = gen.run_main(**params)
            n += 1
            after = sorted(os.listdir("."))
            if not isinstance(e, ValueError) or after != before:
                if len(out) < 3:
                    out.append(mk("C15/main-refusal-writes", {"leg": "main-refusal", "params": params}, [repr(e), after], "ValueError, directory unchanged (%r)" % (before,),
                                  "main() with out-of-range %r in a directory without inputs/: outcome %r, directory now contains %r" % (dict(devs), e, after)))
                for extra in set(after) - set(before):
                    shutil.rmtree(extra, ignore_errors=True)
        os.mkdir("inputs")
        # and the valid base is accepted
        sc.clear()
        e = gen.run_main(**dict(base, force_down=False))
        n += 1
        if e is not None or len(sc.files()) != 1:
            out.append(mk("C15/main-accept", {"leg": "main-refusal", "params": base}, repr(e), "one file", "a valid parameter set was not accepted: %r" % (e,)))
    return out, n


# ------------------------------------------------------------------------------------------------------ run

RULE = ("range/shape: every (seed, size, max reward, loose probability, force-down) of the listed grid through gen_rnd_board; reproducibility: "
        "all call sequences up to the depth bound over 4 parameter sets plus foreign random()/seed() calls, states = pseudo-random generator "
        "states, each result compared with the first result for those arguments and with the board the same arguments give in a process of their own (no history, another hash seed); a quarter of the range leg's calls is repeated in the opposite order in a new process and must give the same boards; entry point: for a grid of 384 parameter sets the three games written by main() must be bisimilar to the rule model of the board gen_rnd_board returns for the same arguments; frequency: the "
        "pseudo-random source seen by the generator is replaced by a scripted one and all pairs of an equidistributed M x M grid of answers "
        "(plus boundary answers 0.0, 2^-53, p-ulp, p, 1-2^-53) are enumerated for each tile of a 1x1 and a 2x2 board; refusal: the full product "
        "of boundary classes of the eight range checks, and every single/double out-of-range deviation through main(); non-trivial = calls with "
        "force-down, boundary answers or out-of-range parameters")
ASSUME = ["loose-tile frequency is decided by exact counting over an equidistributed grid of environment answers (|freq - p| <= 2/M), not by statistics; "
          "the binomial figure over real seeds is reported as a sanity value only",
          "'all seeds' is covered by the listed finite seed grid"]


def run(ctx):
    thorough = ctx.thorough
    nseeds = 5000 if thorough else 1000
    sizes = [(w, l) for w in range(1, 5) for l in range(1, 5)] + [(1, 50), (50, 1)]
    shards = []
    chunk = max(1, nseeds // (ctx.jobs * 2))
    for a in range(0, nseeds, chunk):
        shards.append(("shape", (list(range(a, min(nseeds, a + chunk))), sizes)))
    M = 400 if thorough else 240
    shards.append(("freq", (M, 1, 1, 0, 6)))
    shards.append(("freq", (M, 1, 1, 0, 1)))
    for tile in range(4):
        shards.append(("freq", (M if thorough else 120, 2, 2, tile, 6)))
    for seed in SEEDS:
        for w in SIZES:
            shards.append(("refusal", (seed, w)))
    for a in range(0, len(ENTRY_GRID), 24):
        shards.append(("entry", ENTRY_GRID[a:a + 24]))
    tot = par.run_shards(dispatch, shards, ctx.jobs)
    violations = list(tot.get("violations", []))
    depth = 3
    f, nstates, ntrans, refs = explore_reproducibility(depth)
    violations.extend(f)
    other, err = other_process_boards()
    if other is None:
        raise par.HarnessError("second process failed: %s" % err)
    for i, b in enumerate(other):
        if i in refs and tuple(b) != tuple(refs[i]) and list(b) != list(refs[i]):
            violations.append(mk("C15/not-reproducible-across-processes", {"leg": "process", "params": list(PARAM_SETS[i])}, repr(b), repr(refs[i]),
                                 "gen_rnd_board%r differs in a second process with another hash seed" % (PARAM_SETS[i],)))
    mf, nmain = main_refusals()
    violations.extend(mf)
    sf, nstale = stale_file_findings()
    violations.extend(sf)
    nmain += nstale
    sanity = {}
    for k, n in tot.get("tiles", {}).items():
        sanity[k] = round(tot["loose"].get(k, 0) / float(n), 4)
    if tot.get("refused", 0) < 1000 or tot.get("accepted", 0) < 16:
        if not violations:
            raise par.GuardError("C15 vacuity guard: refusal leg %r/%r" % (tot.get("refused"), tot.get("accepted")))
    cov = {"states": nstates + tot["calls"], "transitions": ntrans + tot["calls"] + nmain,
           "traces_validated_against_impl": tot["calls"] + ntrans + nmain,
           "evaluations": tot["calls"] + ntrans + nmain, "distinct_nontrivial": tot.get("refused", 0) + tot.get("boundary_answers", 0),
           "shape_calls": nseeds * len(sizes) * 3 * 4 * 2, "seeds": [0, nseeds - 1], "sizes_w_x_l": [list(s) for s in sizes],
           "reproducibility": {"depth": depth, "operations": OPS, "generator_states": nstates, "steps": ntrans, "second_process_hash_seed": 7},
           "frequency_grid": M, "boundary_answers_run": tot.get("boundary_answers", 0),
           "refusal_product_calls": tot.get("refused", 0) + tot.get("accepted", 0), "refusal_accepted": tot.get("accepted", 0),
           "main_refusal_runs": nmain, "command_line_runs_compared_with_direct_board": tot.get("entry_runs", 0),
           "calls_repeated_in_opposite_order_in_a_new_process": tot.get("order_differential_calls", 0), "observed_loose_frequency_over_real_seeds_sanity_only": sanity,
           "rule": RULE, "exhaustive": not tot.get("skipped_shards"), "samples": tot.get("samples", [])[:5]}
    return {"coverage": cov, "violations": violations, "assumptions": ASSUME}


def dispatch(shard):
    kind, arg = shard
    if kind == "shape":
        return work_shape(arg)
    if kind == "freq":
        return work_frequency(arg)
    if kind == "entry":
        return work_entry(arg)
    return work_refusal(arg)


def replay(case):
    i = case["input"]
    leg = i["leg"]
    if leg == "shape":
        try:
            b = G.gen_rnd_board(i["seed"], i["length"], i["width"], i["prob_loose_tile"], i["max_reward"], i["force_down"])
            why = shape_findings(b, i["length"], i["width"], i["max_reward"], i["force_down"])
        except Exception as e:                               # noqa: BLE001
            why = "exception %r" % (e,)
        if why:
            return why
        # not reproducible in isolation: replay the calls that preceded it in the exploring process (history dependence)
        for h in i.get("earlier_calls_in_this_process", []):
            G.gen_rnd_board(*h)
        b = G.gen_rnd_board(i["seed"], i["length"], i["width"], i["prob_loose_tile"], i["max_reward"], i["force_down"])
        why = shape_findings(b, i["length"], i["width"], i["max_reward"], i["force_down"])
        return ("after earlier calls %r: %s" % (i.get("earlier_calls_in_this_process"), why)) if why else None
    if leg == "stale":
        f, _ = stale_file_findings()
        return f[0]["explanation"] if f else None
    if leg == "entry":
        out = work_entry([i["params"]])
        return out["violations"][0]["explanation"] if out["violations"] else None
    if leg == "order":
        made = []
        for c in i["calls"]:
            try:
                made.append((c, _digest(G.gen_rnd_board(*c))))
            except Exception as e:                           # noqa: BLE001
                made.append((c, "exception " + type(e).__name__))
        diff = order_differential(made)
        return ("%d of %d calls give another board in the opposite order" % (len(diff), len(made))) if diff else None
    if leg == "reproducibility":
        f, _, _, _ = explore_reproducibility(len(i["sequence"]))
        return f[0]["explanation"] if f else None
    if leg == "process":
        other, err = other_process_boards()
        f, _, _, refs = explore_reproducibility(1)
        for k, b in enumerate(other or []):
            if list(b) != list(refs[k]):
                return "differs across processes"
        return None
    if leg == "frequency":
        out = work_frequency((i["M"], i["length"], i["width"], i["tile"], i["max_reward"]))
        for c in out["violations"]:
            if c["klass"] == case["klass"]:
                return c["explanation"]
        return None
    if leg == "refusal":
        a = i["args"]
        try:
            G.check_input(*a)
            got = "accepted"
        except ValueError:
            got = "refused"
        want = "accepted" if valid(*a) else "refused"
        return None if got == want else "check_input%r: %s, expected %s" % (tuple(a), got, want)
    if leg == "main-refusal":
        f, _ = main_refusals()
        return f[0]["explanation"] if f else None
    return None
