"""C04 - reachability strategies list exactly the value-optimal actions."""
from .. import par, sweep
from ._plans import all_games_plan

PROP = "C04"
RULE = ("every structure of the listed universes, both pruning modes and the Solver seam; for every Player-1 / Player-2 state the reported "
        "list is compared with the exact arg-max / arg-min actions in transition order (states whose competing exact values are closer "
        "than the tolerance are out of scope); non-trivial = some player state has >= 2 actions leading to different targets")
ASSUME = ["exact successor values from the reference solver",
          "a reported list that is a non-empty strict sub-list of the exact optimal list, equals the documented rounding rule applied to "
          "the reported numbers, with all tied successors reported within tolerance, matches known finding KF-C04-1 and is not a VIOLATION "
          "while that finding is listed in known_findings.txt"]
KF = {"KF-C04-1": "tie between exactly equal reachability values lost because round(x, 6) separates their two floating-point evaluations: "
                  "non-converged iterates (inputs/example_17_08.py state 0: alfa_1 and alfa_2 both worth 4/5, only alfa_1 reported) or "
                  "converged values on a rounding boundary (0.75*0.85*0.875 against 0.85*0.75*0.875)"}


def _vacuity(tot):
    if tot["nontrivial"] < 100:
        raise par.GuardError("C04 vacuity guard: %d" % tot["nontrivial"])


def run(ctx):
    return sweep.run_plan(ctx, PROP, all_games_plan(PROP, ctx), RULE, ASSUME, kf_what=KF, vacuity=_vacuity)


def replay(case):
    return sweep.replay_game(PROP, case)
