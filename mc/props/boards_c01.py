"""C01 on games too large for the exact oracle (committed boards): finals exactly 1, states without a path
to a final exactly 0, values in [0,1], Bellman residual 0 <= F(x) - x <= threshold (+ float slack)."""
from .. import oracle as O, run as Rn
from .. import boards
from ..inputs import board_games
from ..repo import P1, P2, PR

SLACK = 1e-9


def residual_findings(g, probs, thr=1e-6):
    n = len(g["players"])
    fin = set(g["final_states"])
    can = O.can_reach(g["transition_list"], g["final_states"])
    for s in range(n):
        x = probs[s]
        if s in fin:
            if x != 1:
                return ("C01/board-final-not-1", s, x)
            continue
        if s not in can:
            if x != 0:
                return ("C01/board-unreachable-not-0", s, x)
            continue
        if not (0 <= x <= 1 + SLACK):
            return ("C01/board-out-of-range", s, x)
        row = g["transition_list"][s]
        vals = [probs[t] for _, t in row]
        who = g["players"][s]
        if who == P1:
            fx = max(vals)
        elif who == P2:
            fx = min(vals)
        else:
            fx = sum(p * probs[t] for p, t in row)
        if fx - x < -SLACK or fx - x > thr + SLACK:
            return ("C01/board-bellman-residual", s, (x, fx))
    return None


def judge_board(g, lines):
    """boards need not be stopping (solve() may legitimately never return), so the probabilities are observed at the
    Solver.solve_reachability seam, with the pruning flag on and off"""
    out = {}
    for prune in (True, False):
        out[prune] = Rn.solve_reach_seam(g, prune, cpu_s=600.0, max_lines=lines)
    res = None
    for prune, o in out.items():
        if o.kind == "ok":
            r = residual_findings(g, o.result[0])
            if r:
                res = r + (prune,)
                break
        elif o.kind == "nosol" and prune:
            continue
        else:
            res = ("C01/board-no-probabilities", None, o.error, prune)
            break
    if res is None and out[True].kind == "ok" and out[False].kind == "ok" and out[True].result[0] != out[False].result[0]:
        res = ("C01/board-modes-differ", None, None, "both")
    if res is None and out[True].kind == "nosol" and out[False].kind == "ok" and out[False].result[0][0] != 0:
        res = ("C01/board-spurious-no-solution", 0, out[False].result[0][0], True)
    return res, out


def _work(shard):
    kind, arg, lines = shard
    out = {"n": 0, "violations": [], "states": 0}
    if kind == "file":
        items = [(f, nme, g) for f, nme, g in board_games(None) if (f, nme) == arg]
        items = [("%s/%s" % (f, nme), {"file": f, "game": nme}, g) for f, nme, g in items]
    else:
        d = boards.generate(*arg)
        items = [("%s %s" % (boards.label(arg), k), {"generated": list(arg[:4]) + [list(arg[4])], "game": k}, d[k]) for k in sorted(d)]
    for lab, inp, g in items:
        res, _ = judge_board(g, lines)
        out["n"] += 1
        out["states"] += len(g["players"])
        if res:
            out["violations"].append({"kind": "board", "klass": res[0], "input": inp, "config": {"prune": res[3]},
                                      "observed": repr(res[2]), "expected": None,
                                      "explanation": "%s: %s at state %s: %r" % (lab, res[0], res[1], res[2])})
    return out


def extend(ctx, rep):
    from .. import par
    limit = 4100 if ctx.thorough else 260
    shards = [("file", (f, nme), 400 * 10**6) for f, nme, g in board_games(limit)]
    shards += [("gen", b, 400 * 10**6) for b in boards.board_list(ctx.thorough, ctx.seed)]
    tot = par.run_shards(_work, shards, ctx.jobs)
    rep["violations"].extend(tot.get("violations", []))
    rep["coverage"]["transitions"] += 2 * tot["n"]
    rep["coverage"]["board_games_in_residual_form"] = tot["n"]
    rep["coverage"]["board_states_total"] = tot["states"]
    rep["coverage"]["traces_validated_against_impl"] += tot["n"]


def replay(case):
    inp = case["input"]
    if "generated" in inp:
        b = inp["generated"]
        g = boards.generate(b[0], b[1], b[2], b[3], tuple(b[4]))[inp["game"]]
        res, _ = judge_board(g, 400 * 10**6)
        return repr(res) if res else None
    for fname, name, g in board_games(None):
        if fname == inp["file"] and name == inp["game"]:
            res, _ = judge_board(g, 400 * 10**6)
            return repr(res) if res else None
    return "input game not found"
