"""C11 - every accepted parameter set yields a loadable, proper three-game file."""
import itertools
import os
import time

from .. import budget, gen, oracle as O, par
from ..repo import tad, conditionalrewards as CR, roberta_generator as G, stochastic_game_from_roborta_board as SG, P1, P2, PR, NOSOL
from . import c08

PROP = "C11"
SOLVE_GRID = (0.05, 0.1, 0.29, 0.5, 0.9)
EXTREME = (1e-6, 0.99, 1 - 1e-9, 1e-12, 1 - 2e-11, 1 / 3, 0.30000000000000004, 0.025, 0.125, 0.625)      # incl. values Python prints in scientific notation, without a short decimal form, or as an arithmetic artefact
BASE = {"rb": 0.1, "lb": 0.1, "tb": 0.1, "lt": 0.3}
KEYS = ["game_a", "game_b", "game_c"]


def end_component(g):
    """signature of KF-C11-1: the game is not stopping - its graph has an end component (player states: some successor
    inside, probabilistic states: all successors inside) among the non-absorbing states.  If the component carries a
    positive reward a tracked total-reward quantity is infinite; if it does not, the 'probabilities under minimal reward'
    diagnostic can oscillate between two vectors for ever (witness: seed 1, 3x4, force-down, max reward 1, loose 0.05).
    Returns None, "rewarded" or "reward-free"."""
    tl = g["transition_list"]
    n = len(tl)
    absorbing = set(s for s in range(n) if all(t == s for _, t in tl[s]))
    C = O.end_component_states(g["players"], tl, absorbing)
    if not C:
        return None
    return "rewarded" if any(g["rewards"][s] > 0 for s in C) else "reward-free"


def structural(d):
    """findings about the loaded dictionary"""
    if not isinstance(d, dict) or list(d.keys()) != KEYS:
        return "the file does not load into exactly game_a, game_b, game_c: %r" % (list(d.keys()) if isinstance(d, dict) else type(d).__name__)
    for key in KEYS:
        g = d[key]
        if not isinstance(g, dict) or sorted(g.keys()) != ["final_states", "players", "rewards", "transition_list"]:
            return "%s has keys %r" % (key, sorted(g.keys()) if isinstance(g, dict) else g)
        try:
            sg = tad.StochasticGame(**g)
            sg.check_game()
            sg.init_states()
        except Exception as e:                               # noqa: BLE001
            return "%s fails the solver's validation: %s: %s" % (key, type(e).__name__, e)
        n = len(g["players"])
        tl = g["transition_list"]
        for s in range(n):
            if not tl[s]:
                return "%s: state %d has no transition" % (key, s)
            if g["players"][s] == PR:
                ps = [p for p, _ in tl[s]]
                if any((not isinstance(p, (int, float))) or isinstance(p, bool) or not (p > 0) for p in ps):
                    return "%s: probabilistic state %d has a non-positive probability: %r" % (key, s, tl[s])
                if abs(sum(ps) - 1) > 1e-9:
                    return "%s: probabilities of state %d sum to %r" % (key, s, sum(ps))
        fin = g["final_states"]
        if not isinstance(fin, list) or len(fin) != 1:
            return "%s: final states %r" % (key, fin)
        win = fin[0]
        lose = n - 2
        if win != n - 1:
            return "%s: the final state %r is not the winning state %d" % (key, win, n - 1)
        for s, what in ((win, "winning"), (lose, "losing")):
            if any(t != s for _, t in tl[s]):
                return "%s: the %s state %d is not absorbing: %r" % (key, what, s, tl[s])
    return None


def solve_entry(key, g, cpu):
    """run the batch runner on one game of the file; returns (finding or None, known or None, seconds)"""
    t0 = time.time()
    fn = lambda: CR.run_games({key: {k: g[k] for k in ("rewards", "players", "transition_list", "final_states")}})
    st, val = budget.run_budgeted(fn, cpu_s=cpu, confirm=False)
    if st == "timeout":
        ec = end_component(g)
        if ec:
            return None, "KF-C11-1:" + ec, time.time() - t0
        st, val = budget.run_budgeted(fn, cpu_s=10 * cpu, max_lines=30_000_000 + 400_000 * len(g["players"]))
        if st == "diverged":
            return ("C11/no-termination", "no result", "solved or no solution",
                    "%s: the batch run does not terminate although the game has no end component (it is a stopping game)" % key), None, time.time() - t0
    if st == "exc":
        return ("C11/batch-crash", "%s: %s" % (type(val).__name__, val), "solved or no solution", "%s: run_games raised %r" % (key, val)), None, time.time() - t0
    r = val
    m1 = r.get(key, {}).get("msg")
    m2 = r.get(key + "_no_prune", {}).get("msg")
    ok = (m1 == "Game solved" and m2 == "Game solved") or (m1 == "Error while solving the game: " + NOSOL and m2 == "Game not solved")
    if not ok:
        return ("C11/not-solved-nor-no-solution", [m1, m2], "solved / no solution",
                "%s: messages %r / %r: neither solved nor reported as having no solution" % (key, m1, m2)), None, time.time() - t0
    return None, None, time.time() - t0


PRIMER_TEXT = ('{"coin": {"rewards": [1, 0, 0], "players": ["Probabilistic", "Probabilistic", "Probabilistic"], '
               '"transition_list": [[(0.5, 1), (0.5, 2)], [(1, 1)], [(1, 2)]], "final_states": [2]}}\n')


def check_params(sc, params, solve):
    """returns (findings, known list, stats)"""
    sc.clear()
    e = gen.run_main(**params)
    if e is not None:
        return [("C11/generator-refused", repr(e), "a file", "accepted parameters %r: main() raised %r" % (params, e))], [], {}
    files = sc.files()
    if len(files) != 1:
        return [("C11/file-count", files, "one file", "parameters %r created %r" % (params, files))], [], {}
    try:
        # the reader is used on an unrelated file first (other game names): what it returns for the generated file must not depend on that
        if not os.path.exists("primer.py"):
            with open("primer.py", "w") as f:
                f.write(PRIMER_TEXT)
        CR.read_dict_from_file("primer.py")
        d = CR.read_dict_from_file(os.path.join("inputs", files[0]))
    except Exception as ex:                                  # noqa: BLE001
        return [("C11/unreadable-file", "%s: %s" % (type(ex).__name__, ex), "a dictionary", "parameters %r: the reader fails on the generated file: %r" % (params, ex))], [], {}
    why = structural(d)
    if why:
        return [("C11/structure", why, None, "parameters %r: %s" % (params, why))], [], {}
    findings, known = [], []
    stats = {"solved_entries": 0, "max_s": 0.0}
    if solve:
        for key in KEYS:
            g = d[key]
            cpu = 6.0 + 0.1 * len(g["players"])
            f, k, secs = solve_entry(key, g, cpu)
            if f:
                findings.append(f[:3] + ("parameters %r: %s" % (params, f[3]),))
            elif k:
                known.append((k.split(":")[0], key + " (" + k.split(":")[1] + " end component)"))
            else:
                stats["solved_entries"] += 1
                stats["max_s"] = max(stats["max_s"], secs)
    return findings, known, stats


OVERWRITE_PAIRS = [
    # (first call, second call): both are accepted and are written to the SAME file name (names carry whole percentages only);
    # the first text is longer than the second
    (dict(seed=3, width=2, length=2, rb=0.1234567, lb=0.3141592, tb=0.1, lt=0.3, max_reward=6, force_down=False),
     dict(seed=3, width=2, length=2, rb=0.12, lb=0.31, tb=0.1, lt=0.3, max_reward=6, force_down=False)),
    (dict(seed=5, width=3, length=1, rb=0.1, lb=0.1, tb=0.2049999, lt=0.3, max_reward=6, force_down=True),
     dict(seed=5, width=3, length=1, rb=0.1, lb=0.1, tb=0.2, lt=0.3, max_reward=6, force_down=True)),
]


def overwrite_findings():
    """history leg: a second accepted parameter set written over an existing file of the same name must leave exactly its own games"""
    out = []
    n = 0
    for first, second in OVERWRITE_PAIRS:
        with gen.Scratch() as sc:
            e = gen.run_main(**second)
            ref = open(os.path.join("inputs", sc.files()[0]), "rb").read() if e is None and len(sc.files()) == 1 else None
        with gen.Scratch() as sc:
            e1 = gen.run_main(**first)
            e2 = gen.run_main(**second)
            n += 2
            files = sc.files()
            why = None
            if e1 is not None or e2 is not None or len(files) != 1:
                why = "calls raised %r / %r and left %r" % (e1, e2, files)
            else:
                text = open(os.path.join("inputs", files[0]), "rb").read()
                try:
                    d = CR.read_dict_from_file(os.path.join("inputs", files[0]))
                    why = structural(d)
                except Exception as ex:                      # noqa: BLE001
                    why = "the reader fails on the rewritten file: %s: %s" % (type(ex).__name__, ex)
                if why is None and ref is not None and text != ref:
                    why = "the rewritten file differs from what the second parameter set writes into an empty directory"
            if why:
                out.append(mk("C11/overwrite", {"first": first, "second": second}, why, "the second set's file",
                              "generating %r and then %r into the same directory: %s" % (first, second, why), False, "overwrite"))
    # manual entry: same shape, different content
    with gen.Scratch() as sc:
        try:
            SG.create_sg_from_board([[1, 1, 1], [1, 1, 1]], [[2, 0, 1], [0, 2, 1]], [[1, 1, 1], [1, 1, 1]], 0.1, 0.05, 0.25)
            SG.create_sg_from_board([[3, 3, 3], [3, 3, 3]], [[2, 0, 0], [0, 0, 0]], [[0, 0, 0], [0, 0, 0]], 0.1, 0.05, 0.25)
            n += 2
            bad = []
            for f in sc.files():
                try:
                    w = structural(CR.read_dict_from_file(os.path.join("inputs", f)))
                except Exception as ex:                      # noqa: BLE001
                    w = "the reader fails: %s: %s" % (type(ex).__name__, ex)
                if w:
                    bad.append("%s: %s" % (f, w))
            if bad:
                out.append(mk("C11/overwrite", {"manual": "two boards of the same shape"}, bad[0], None,
                              "two manual boards written one after the other: %s" % bad[0], False, "overwrite"))
        except Exception as ex:                              # noqa: BLE001
            out.append(mk("C11/overwrite", {"manual": "two boards of the same shape"}, repr(ex), None, "manual entry failed: %r" % (ex,), False, "overwrite"))
    return out, n


def mk(klass, params, obs, exp, expl, solve=True, entry="cli"):
    return {"kind": "params", "klass": klass, "input": {"entry": entry, "params": params}, "config": {"solve": solve},
            "observed": obs, "expected": exp, "explanation": expl}


def work(shard):
    out = {"files": 0, "entries_solved": 0, "violations": [], "n_violations": 0, "known": {}, "nontrivial": 0, "samples": [],
           "max_legit_seconds": 0.0, "structural_only": 0}
    kind, items = shard
    with gen.Scratch() as sc:
        if kind == "cli":
            for params, solve in items:
                f, k, stats = check_params(sc, params, solve)
                out["files"] += 1
                out["entries_solved"] += stats.get("solved_entries", 0)
                out["max_legit_seconds"] = max(out["max_legit_seconds"], stats.get("max_s", 0.0))
                if not solve:
                    out["structural_only"] += 1
                if params["width"] != params["length"] or params["force_down"] or params != dict(params, **BASE):
                    out["nontrivial"] += 1
                for x in f:
                    out["n_violations"] += 1
                    if len([c for c in out["violations"] if c["klass"] == x[0]]) < 2:
                        out["violations"].append(mk(x[0], params, x[1], x[2], x[3], solve))
                for kid, key in k:
                    d = out["known"].setdefault(kid, {"count": 0, "cases": [], "what": ""})
                    d["count"] += 1
                    if len(d["cases"]) < 1:
                        d["cases"].append(mk(kid, params, "no result within the alarm", "solved or no solution",
                                             "parameters %r: the batch run of %s does not return; the game is not stopping" % (params, key), solve))
            if items:
                out["samples"].append({"entry": "cli", "params": items[0][0], "solved": items[0][1]})
        else:
            for (L, W, lo, hi, rewset) in items:
                from ..universe import Product
                prod = Product([c08.tile_alphabet(rewset)] * (L * W))
                for combo in prod.iter_range(lo, hi):
                    moves, rew, loose = c08.decode(L, W, combo)
                    sc.clear()
                    out["files"] += 1
                    out["structural_only"] += 1
                    try:
                        SG.create_sg_from_board(moves, rew, loose, 0.1, 0.05, 0.25)
                        files = sc.files()
                        d = CR.read_dict_from_file(os.path.join("inputs", files[0])) if len(files) == 1 else None
                        why = structural(d) if d is not None else "created %r" % files
                    except Exception as e:                   # noqa: BLE001
                        why = "exception %r" % (e,)
                    if why:
                        out["n_violations"] += 1
                        if len(out["violations"]) < 2:
                            out["violations"].append(mk("C11/manual-structure", {"moves": moves, "rewards": rew, "loose_tiles": loose}, why, None,
                                                        "create_sg_from_board(moves=%r, rewards=%r, loose=%r): %s" % (moves, rew, loose, why), False, "manual"))
            out["samples"].append({"entry": "manual", "shape": [items[0][0], items[0][1]]})
    return out


def work_arrows(shard):
    """manual entry point: every arrow layout (4 symbols per tile) on a 2x3 or 3x2 board, rewards and loose tiles fixed"""
    out = {"files": 0, "entries_solved": 0, "violations": [], "n_violations": 0, "known": {}, "nontrivial": 0, "samples": [],
           "max_legit_seconds": 0.0, "structural_only": 0}
    L, W, lo, hi = shard
    from ..universe import Product
    with gen.Scratch() as sc:
        for combo in Product([[0, 1, 2, 3]] * (L * W)).iter_range(lo, hi):
            moves = [[combo[i * W + j] for j in range(W)] for i in range(L)]
            rew = [[(i + j) % 3 for j in range(W)] for i in range(L)]
            loose = [[(i * W + j) % 2 for j in range(W)] for i in range(L)]
            sc.clear()
            out["files"] += 1
            out["structural_only"] += 1
            out["nontrivial"] += 1
            try:
                SG.create_sg_from_board(moves, rew, loose, 0.1, 0.05, 0.25)
                files = sc.files()
                d = CR.read_dict_from_file(os.path.join("inputs", files[0])) if len(files) == 1 else None
                why = structural(d) if d is not None else "created %r" % files
            except Exception as e:                           # noqa: BLE001
                why = "exception %r" % (e,)
            if why:
                out["n_violations"] += 1
                if len(out["violations"]) < 2:
                    out["violations"].append(mk("C11/manual-structure", {"moves": moves, "rewards": rew, "loose_tiles": loose}, why, None,
                                                "create_sg_from_board(moves=%r, rewards=%r, loose=%r): %s" % (moves, rew, loose, why), False, "manual"))
    out["samples"].append({"entry": "manual", "arrow_layouts_on": [L, W]})
    return out


def param_sets(ctx):
    """(params, solve?) - solve only on the solve grid"""
    thorough = ctx.thorough
    seeds = (0, 1, 2, 47, 999132423) if thorough else (ctx.seed % 3, 47)
    sizes = [(w, l) for w in range(1, 5) for l in range(1, 5)] if thorough else [(w, l) for w in range(1, 4) for l in range(1, 4)]
    combos = [dict(BASE)]
    names = ["rb", "lb", "tb", "lt"]
    for nme in names:
        for v in SOLVE_GRID:
            c = dict(BASE)
            c[nme] = v
            combos.append(c)
    if thorough:
        for a, b in itertools.combinations(names, 2):
            for va, vb in itertools.product(SOLVE_GRID, repeat=2):
                c = dict(BASE)
                c[a], c[b] = va, vb
                combos.append(c)
    extreme = []
    for nme in names:
        for v in EXTREME:
            c = dict(BASE)
            c[nme] = v
            extreme.append(c)
    if thorough:
        for a, b in itertools.combinations(names, 2):
            for va, vb in itertools.product(EXTREME, repeat=2):
                c = dict(BASE)
                c[a], c[b] = va, vb
                extreme.append(c)
    seen = set()
    out = []
    n_single = 1 + len(names) * len(SOLVE_GRID)
    for (combo_list, solve) in ((combos, True), (extreme, False)):
        for ci, c in enumerate(combo_list):
            pair = solve and ci >= n_single           # two-at-a-time combinations (thorough): on a reduced seed/size grid
            for seed in (seeds if not pair else (0, 47)):
                for (w, l) in (sizes if not pair else [(1, 1), (1, 3), (2, 2), (3, 2), (3, 3)]):
                    for mr in ((1, 6) if thorough else (6,)):
                        for fd in (False, True):
                            p = dict(c, seed=seed, width=w, length=l, max_reward=mr, force_down=fd)
                            key = repr(sorted(p.items()))
                            if key not in seen:
                                seen.add(key)
                                out.append((p, solve))
    big = [(1, 200), (200, 3), (20, 10)] if thorough else [(1, 110), (55, 2)]        # game C has more than 1024 states from 103 tiles on
    for (w, l) in big:
        for fd in (False, True):
            out.append((dict(BASE, seed=1, width=w, length=l, max_reward=6, force_down=fd), False))
    for mr in (1023, 10 ** 17, 2 ** 64):         # very large maximum rewards (accepted by the parameter checks)
        out.append((dict(BASE, seed=2, width=2, length=2, max_reward=mr, force_down=False), False))
    return out


def dispatch(shard):
    return work_arrows(shard[1]) if shard[0] == "arrows" else work(shard)


RULE = ("command-line path roberta_generator.main() in a scratch directory over the listed grid: seeds x sizes x max reward x force-down x the four "
        "probabilities varied one (thorough: two) at a time over the solve grid {0.05,0.1,0.29,0.5,0.9} (file + solve) and the extreme grid "
        "{1e-6, 0.99, 1-1e-9, 1e-12, 1-2e-11, 1/3, 0.30000000000000004, and the exact half-percent values 0.025, 0.125, 0.625} and very long/wide boards (file structure only); manual path create_sg_from_board on every board of the <= 3-tile "
        "universe and on every arrow layout of a 2x3 and a 3x2 board (structure); non-trivial = non-square, force-down or non-default probabilities")
ASSUME = ["termination of the batch run is only claimed on the solve grid; with a failure probability of 1e-6 the solver legitimately needs ~3e7 sweeps",
          "a batch run that does not return within the alarm on a game that has an end component among its non-absorbing states (i.e. is not a "
          "stopping game) matches known finding KF-C11-1 (while listed) and is not confirmed further; on a game without end component "
          "non-termination is confirmed under a deterministic line budget and is a VIOLATION",
          "layout assumption: the losing state is state n-2, the winning state n-1"]
KF = {"KF-C11-1": "generated boards are not stopping games: when the game graph has an end component the total-reward iteration need not terminate "
                  "(rewarded component, e.g. seed 47 w3 l2 force-down tile 0.9: a tracked quantity is infinite; reward-free component, e.g. seed 1 "
                  "w3 l4 force-down max reward 1 loose 0.05: the 'probabilities under minimal reward' vector oscillates) and run_games never returns"}


def run(ctx):
    sets = param_sets(ctx)
    n = ctx.jobs * 4
    shards = [("cli", sets[i::n]) for i in range(n) if sets[i::n]]
    for tiles, rewset in ((1, (0, 1, 2)), (2, (0, 1, 2)), (3, (0, 1))):
        for (L, W) in c08.shapes(tiles):
            size = len(c08.tile_alphabet(rewset)) ** tiles
            for lo, hi in par.ranges(size, ctx.jobs if size > 1000 else 1):
                shards.append(("manual", [(L, W, lo, hi, rewset)]))
    for (L, W) in ((2, 3), (3, 2)):
        for lo, hi in par.ranges(4 ** (L * W), ctx.jobs):
            shards.append(("arrows", (L, W, lo, hi)))
    tot = par.run_shards(dispatch, shards, ctx.jobs)
    known = tot.get("known", {})
    for kid, d in known.items():
        d["what"] = KF.get(kid, "")
    ow, n_ow = overwrite_findings()
    tot.setdefault("violations", []).extend(ow)
    tot["files"] += n_ow
    if not tot.get("violations") and tot["entries_solved"] < 100:
        raise par.GuardError("C11 vacuity guard: %d entries solved" % tot["entries_solved"])
    cov = {"states": tot["files"], "transitions": tot["files"] + tot["entries_solved"], "traces_validated_against_impl": tot["files"],
           "evaluations": tot["files"], "distinct_nontrivial": tot["nontrivial"], "cli_parameter_sets": len(sets),
           "files_structural_only": tot["structural_only"], "overwrite_history_calls": n_ow, "game_entries_solved_by_batch_runner": tot["entries_solved"],
           "slowest_legitimate_batch_entry_s": round(tot["max_legit_seconds"], 2),
           "rule": RULE, "exhaustive": not tot.get("skipped_shards"), "samples": tot["samples"][:4]}
    return {"coverage": cov, "violations": tot["violations"], "known": known, "assumptions": ASSUME}


def replay(case):
    i = case["input"]
    if i["entry"] == "overwrite":
        f, _ = overwrite_findings()
        return f[0]["explanation"] if f else None
    with gen.Scratch() as sc:
        if i["entry"] == "manual":
            p = i["params"]
            SG.create_sg_from_board(p["moves"], p["rewards"], p["loose_tiles"], 0.1, 0.05, 0.25)
            files = sc.files()
            d = CR.read_dict_from_file(os.path.join("inputs", files[0])) if len(files) == 1 else None
            return structural(d) if d is not None else "created %r" % files
        f, k, _ = check_params(sc, i["params"], case["config"]["solve"])
        for x in f:
            if x[0] == case["klass"]:
                return x[3]
        for kid, key in k:
            if kid == case["klass"]:
                return "batch run of %s does not return" % key
        return f[0][3] if f else None
