"""Universe plans shared by the solver-property checks."""
from .. import sweep


def stopping_plan(prop, ctx, with_t3=False, with_x=True):
    """stopping games with all reward vectors (C02, C05, C06, C14)"""
    j = ctx.jobs
    P = []
    if ctx.thorough:
        P.append(sweep.universe_shards(prop, "U-S2", j, rewards="all012", stopping_only=True))
        P.append(sweep.universe_shards(prop, "U-S2d2", j, rewards="allmixed", stopping_only=True))
        P.append(sweep.universe_shards(prop, "U-S3", j, rewards="all01", stopping_only=True))
        P.append(sweep.universe_shards(prop, "U-S4r", j, rewards="all01", stopping_only=True, frac=8, seed=ctx.seed))
        P.append(sweep.family_shards(prop, "U-F", j, max_deg=5, focus_reward=1))
        P.append(sweep.family_shards(prop, "U-F", j, max_deg=4, focus_reward=0))
        P.append(sweep.family_shards(prop, "U-F", j, max_deg=4, focus_reward=2))
        if with_t3:
            P.append(sweep.universe_shards(prop, "U-T3", j, rewards="all01", stopping_only=True))
    else:
        P.append(sweep.universe_shards(prop, "U-S2d2", j, rewards="all012", stopping_only=True))
        P.append(sweep.universe_shards(prop, "U-S2d2", j, rewards="allmixed", stopping_only=True, frac=4, seed=ctx.seed))
        P.append(sweep.universe_shards(prop, "U-S2", j, rewards="all01", stopping_only=True, frac=8, seed=ctx.seed))
        P.append(sweep.universe_shards(prop, "U-S3", j, rewards="all01", stopping_only=True, frac=64, seed=ctx.seed))
        P.append(sweep.family_shards(prop, "U-F", j, max_deg=3, focus_reward=1))
        P.append(sweep.family_shards(prop, "U-F", j, max_deg=2, focus_reward=2))
        if with_t3:
            P.append(sweep.universe_shards(prop, "U-T3", j, rewards="all01", stopping_only=True, frac=16, seed=ctx.seed))
    # medium-size irregular games (7 and 8 states): arithmetic progressions through the whole universe
    P.append(sweep.universe_shards(prop, "U-S5r", j, rewards="pat3", stopping_only=True, stride=50021 if ctx.thorough else 1000003, seed=ctx.seed))
    P.append(sweep.universe_shards(prop, "U-S6r", j, rewards="pat3", stopping_only=True, stride=20000003 if ctx.thorough else 400000009, seed=ctx.seed))
    P.append(sweep.family_shards(prop, "U-D", j))
    P.append(sweep.family_shards(prop, "U-WIDE", j))
    P.append(sweep.family_shards(prop, "U-BIG", j))
    P.append(sweep.family_shards(prop, "U-MF", j))
    P.append(sweep.family_shards(prop, "U-ULP", 1000))
    P.append(sweep.family_shards(prop, "U-N", j))
    if not ctx.thorough:
        P.append(sweep.family_shards(prop, "U-F", j, max_deg=4, focus_reward=1, stride=7, offset=ctx.seed))
    if with_t3:
        P.append(sweep.family_shards(prop, "U-M2", 1000))        # C06 only
    P.append(sweep.family_shards(prop, "U-E", j))
    P.append(sweep.family_shards(prop, "U-L", j))
    P.append(sweep.family_shards(prop, "U-K", j))
    P.append(sweep.family_shards(prop, "U-RB", j))
    P.append(sweep.family_shards(prop, "U-M", 1000))
    P.append(sweep.family_shards(prop, "U-H", 1000))
    P.append(sweep.family_shards(prop, "U-W", 1000))
    P.append(sweep.family_shards(prop, "U-Z", j))
    P.append(sweep.family_shards(prop, "U-R", j))
    P.append(sweep.family_shards(prop, "U-P2", j))
    if ctx.thorough:
        P.append(sweep.family_shards(prop, "U-C", j))
        P.append(sweep.family_shards(prop, "U-G", j))
        P.append(sweep.family_shards(prop, "U-A", 2000, all_sizes=True))
        P.append(sweep.family_shards(prop, "U-SC", 2000, all_sizes=True))
    else:
        P.append(sweep.family_shards(prop, "U-A", 2000))
        P.append(sweep.family_shards(prop, "U-SC", 2000))
        P.append(sweep.family_shards(prop, "U-C", j, stride=4, offset=ctx.seed))
        P.append(sweep.family_shards(prop, "U-G", j, stride=6, offset=ctx.seed))
    if with_x:
        P.append(sweep.family_shards(prop, "U-X", j))
    P.extend(debug_log_parts(prop, ctx))
    return P


def debug_log_parts(prop, ctx):
    """configurations and histories rather than inputs: all ordered pairs of the family U-PAIR (G1 solved, then G2 solved and judged in the
    same, otherwise fresh process), and the same judges with every solve executed at the DEBUG log level (the tool's -l d)"""
    j = ctx.jobs
    return [sweep.pair_shards(prop, j, stride=1 if ctx.thorough else 2, offset=ctx.seed),
            sweep.family_shards(prop, "U-F", j, max_deg=3 if ctx.thorough else 2, focus_reward=1, debug_log=True),
            sweep.universe_shards(prop, "U-S2d2", j, rewards="ones", stopping_only=False, frac=None if ctx.thorough else 8, seed=ctx.seed, debug_log=True),
            sweep.universe_shards(prop, "U-S2d2", j, rewards="ones", stopping_only=False, frac=None if ctx.thorough else 2, seed=ctx.seed + 1, alias_rows=True),
            sweep.family_shards(prop, "U-PAIR", j, alias_rows=True),
            sweep.family_shards(prop, "U-E", j, debug_log=True, stride=1 if ctx.thorough else 4, offset=ctx.seed),
            sweep.family_shards(prop, "U-X", j, debug_log=True)]


def all_games_plan(prop, ctx, thresholds=False):
    """all well-formed games, one reward vector (C01, C04)"""
    j = ctx.jobs
    thr = sweep.THRESHOLDS if thresholds else ()
    P = []
    if ctx.thorough:
        P.append(sweep.universe_shards(prop, "U-T3", j, thresholds=thr))
        P.append(sweep.universe_shards(prop, "U-S2", j, thresholds=thr))
        P.append(sweep.universe_shards(prop, "U-S3", j))
        P.append(sweep.universe_shards(prop, "U-S4r", j, frac=8, seed=ctx.seed))
        P.append(sweep.universe_shards(prop, "U-T4r", j, frac=16, seed=ctx.seed))
        P.append(sweep.family_shards(prop, "U-F", j, max_deg=5))
    else:
        P.append(sweep.universe_shards(prop, "U-S2d2", j, thresholds=thr))
        P.append(sweep.universe_shards(prop, "U-S2", j, frac=4, seed=ctx.seed))
        P.append(sweep.universe_shards(prop, "U-T3", j, frac=16, seed=ctx.seed, thresholds=thr[:1]))
        P.append(sweep.universe_shards(prop, "U-S3", j, frac=64, seed=ctx.seed))
        P.append(sweep.universe_shards(prop, "U-T4r", j, frac=512, seed=ctx.seed))
        P.append(sweep.family_shards(prop, "U-F", j, max_deg=3))
    P.append(sweep.universe_shards(prop, "U-S5r", j, stride=50021 if ctx.thorough else 1000003, seed=ctx.seed))
    P.append(sweep.universe_shards(prop, "U-S6r", j, stride=20000003 if ctx.thorough else 400000009, seed=ctx.seed))
    P.append(sweep.family_shards(prop, "U-D", j))
    P.append(sweep.family_shards(prop, "U-WIDE", j))
    P.append(sweep.family_shards(prop, "U-BIG", j))
    P.append(sweep.family_shards(prop, "U-MF", j))
    P.append(sweep.family_shards(prop, "U-E", j))
    P.append(sweep.family_shards(prop, "U-K", j))
    P.append(sweep.family_shards(prop, "U-RB", j))
    P.append(sweep.family_shards(prop, "U-W", 1000))
    P.append(sweep.family_shards(prop, "U-Z", j))
    P.append(sweep.family_shards(prop, "U-R", j))
    P.append(sweep.family_shards(prop, "U-P2", j, stride=1 if ctx.thorough else 3, offset=ctx.seed))
    if ctx.thorough:
        P.append(sweep.family_shards(prop, "U-C", j))
        P.append(sweep.family_shards(prop, "U-G", j))
        P.append(sweep.family_shards(prop, "U-A", 2000, all_sizes=True))
        P.append(sweep.family_shards(prop, "U-SC", 2000, all_sizes=True))
    else:
        P.append(sweep.family_shards(prop, "U-A", 2000))
        P.append(sweep.family_shards(prop, "U-SC", 2000))
        P.append(sweep.family_shards(prop, "U-C", j, stride=4, offset=ctx.seed))
        P.append(sweep.family_shards(prop, "U-G", j, stride=6, offset=ctx.seed))
    P.append(sweep.family_shards(prop, "U-X", j))
    P.extend(debug_log_parts(prop, ctx))
    return P
