"""C12 - batch runs solve each game in isolation and report failures (exhaustive enumeration of batch histories)."""
import copy
import itertools
import os
import shutil
import sys
import tempfile

from .. import batch as B, budget, par
from ..repo import conditionalrewards as CR

PROP = "C12"
_CACHE = {}


PAIR_STRIDE = [1, 0]          # [stride, offset] of the U-PAIR members used for two-game batches; set by run() before the pool is forked


def setup():
    if "alpha" not in _CACHE:
        main = B.alphabet(api_only=True)
        pairs = B.pair_alphabet(*PAIR_STRIDE)
        _CACHE["main_names"] = [n for n, _ in main]
        _CACHE["pair_names"] = [n for n, _ in pairs]
        _CACHE["alpha"] = main + pairs
        _CACHE["refs"] = B.solo_references(_CACHE["alpha"])
    return _CACHE["alpha"], _CACHE["refs"]


def last_write_wins(expected):
    """what the documented key format yields when two keys coincide: later entries overwrite earlier ones in place"""
    d = {}
    for k, e in expected:
        d[k] = e
    return list(d.items())


def check_selection(names, via_main=False):
    """returns (findings, known) for one ordered selection of game names"""
    alpha, refs = setup()
    games = dict(alpha)
    selection = [(n, games[n]) for n in names]
    pristine = {n: copy.deepcopy(g) for n, g in selection}
    batch = {n: copy.deepcopy(g) for n, g in selection}
    expected = B.expected_entries(selection, refs)
    crash = [n for n in names if "crash" in (refs[n][True][0], refs[n][False][0])]
    if crash:
        return [("C12/alphabet-game-crashes", repr(refs[crash[0]]), None, "solving %s alone crashes" % crash[0])], []
    if via_main:
        res, err = run_via_main(batch)
    else:
        st, val = budget.run_budgeted(lambda: CR.run_games(batch), cpu_s=60.0, max_lines=100_000_000)
        res, err = (val, None) if st == "ok" else (None, "%s: %s" % (type(val).__name__, val) if st == "exc" else "no termination")
    if err:
        return [("C12/batch-crash", err, "a result dictionary", "run_games%s failed on the selection %r: %s" % (" (through main -f FILE -s)" if via_main else "", list(names), err))], []
    findings, known = [], []
    if via_main:
        # res = parsed report blocks: compare through the report parser against the expected entries
        why = compare_blocks_with_expected(res, expected if not B.has_name_collision(names) else None, names)
    else:
        why = B.compare_entries(res, expected)
    if why:
        if B.has_name_collision(names) and not via_main and B.compare_entries(res, last_write_wins(expected)) is None:
            known.append(("KF-C12-1", list(res.keys()), [k for k, _ in expected],
                          "selection %r: a game named like another game's unpruned entry overwrites it (keys %r)" % (list(names), list(res.keys()))))
        elif B.has_name_collision(names) and via_main:
            pass
        else:
            findings.append(("C12/entry-differs", why, "entries equal to solving each game alone",
                             "selection %r%s: %s" % (list(names), " through main()" if via_main else "", why)))
    if not via_main and not findings and not known and len(names) <= 2:
        # history: the same dictionary object run a second time in the same process must give the same entries
        st, val2 = budget.run_budgeted(lambda: CR.run_games(batch), cpu_s=60.0, max_lines=100_000_000)
        why2 = B.compare_entries(val2, expected) if st == "ok" else "second run: %r" % (val2,)
        if why2 and not B.has_name_collision(names):
            findings.append(("C12/second-run-differs", why2, "the same entries as the first run",
                             "selection %r run a second time on the same dictionary: %s" % (list(names), why2)))
    if not via_main:
        for n, g in batch.items():
            rest, was = dict(g), dict(pristine[n])        # every key, including a 'prune_states' entry of the caller's own
            if rest != was or repr(rest) != repr(was):
                findings.append(("C12/caller-game-changed", repr(rest)[:300], repr(pristine[n])[:300],
                                 "selection %r: the caller's game %s was changed by the batch run" % (list(names), n)))
                break
    return findings, known


def compare_blocks_with_expected(blocks, expected, names):
    if expected is None:
        return None
    fake = {}
    keys = [b["Running example"] for b in blocks]
    if keys != [k for k, _ in expected]:
        return "report blocks %r, expected %r" % (keys, [k for k, _ in expected])
    result = {k: dict(e, total_time=0.0) for k, e in expected}
    return B.compare_report(blocks, result)


def run_via_main(batch):
    tmp = tempfile.mkdtemp(prefix="crverif_c12_")
    cwd = os.getcwd()
    argv = sys.argv
    try:
        os.mkdir(os.path.join(tmp, "inputs"))
        os.mkdir(os.path.join(tmp, "outputs"))
        # environment: a longer report of the same name left behind by an earlier run; the new report must replace it entirely
        with open(os.path.join(tmp, "outputs", "batch_1.txt"), "w", encoding="utf-8") as f:
            f.write(B.STALE_REPORT)
        with open(os.path.join(tmp, "inputs", "batch_1.py"), "w", encoding="utf-8") as f:
            # files with an odd number of games are written with calls of built-in functions and indented, the others as a plain repr
            f.write(B.render(batch, "calls") if len(batch) % 2 else repr(batch))
        os.chdir(tmp)
        sys.argv = ["conditionalrewards.py", "-f", "inputs/batch_1.py", "-s"]
        st, val = budget.run_budgeted(CR.main, cpu_s=60.0, max_lines=100_000_000)
        if st != "ok":
            return None, ("%s: %s" % (type(val).__name__, val)) if st == "exc" else "no termination"
        files = os.listdir("outputs")
        if files != ["batch_1.txt"]:
            return None, "outputs/ contains %r" % files
        try:
            return B.parse_report(open(os.path.join("outputs", "batch_1.txt"), encoding="utf-8").read()), None
        except ValueError as e:
            return None, "report does not parse: %s" % e
    finally:
        sys.argv = argv
        os.chdir(cwd)
        shutil.rmtree(tmp, ignore_errors=True)


def work(shard):
    out = {"dicts": 0, "solves": 0, "violations": [], "known": {}, "n_violations": 0, "nontrivial": 0, "samples": []}
    for names, via_main in shard:
        f, k = check_selection(names, via_main)
        out["dicts"] += 1
        out["solves"] += 2 * len(names)
        if any(n in ("x_no_prune", "g_1", "m_1", "b2", "nf", "lp", "d_p1", "tw_float", "tw_lists", "tw_tuple") or n.startswith("u") for n in names) and len(names) >= 2:
            out["nontrivial"] += 1
        for x in f:
            out["n_violations"] += 1
            if len([c for c in out["violations"] if c["klass"] == x[0]]) < 2:
                out["violations"].append({"kind": "history", "klass": x[0], "input": {"selection": list(names)},
                                          "config": {"via_main": via_main}, "observed": x[1], "expected": x[2], "explanation": x[3]})
        for x in k:
            d = out["known"].setdefault(x[0], {"count": 0, "cases": [], "what": ""})
            d["count"] += 1
            if len(d["cases"]) < 1:
                d["cases"].append({"kind": "history", "klass": x[0], "input": {"selection": list(names)}, "config": {"via_main": via_main},
                                   "observed": x[1], "expected": x[2], "explanation": x[3]})
    if shard:
        out["samples"].append({"selection": list(shard[0][0]), "via_main": shard[0][1]})
    return out


RULE = ("alphabet of 15 named games (the 5 added last are a well-formed game and four re-typed twins of it: a successor index written 2.0, transitions as lists, a transition list as a tuple - all malformed - and 1.0/True for 1 - legal); further every ordered two-game batch of the family U-PAIR (games that coincide in one aspect - graph, rows, owners, concatenated successors - and differ in another); first 10: (5 solvable incl. the paper's figure 5.5, a 42-state board game a game with a Player-1 state whose moves are all dead and a game whose pruned and unpruned runs differ without any dead state; two games carry their own 'prune_states' entry, 2 unsolvable when pruned, 3 malformed: "
        "negative reward / None transition list / no final state; the names 'x' and 'x_no_prune' collide on purpose); every ordered selection of 0..k distinct "
        "games is one batch history, run through run_games (and in thorough also through main -f FILE -s and the report); every entry must "
        "equal the solo solve of that game computed in a forked fresh process; non-trivial = a selection of >= 2 games containing a failing one")
ASSUME = ["solo reference results computed once per run, each game in a forked child process of its own",
          "a selection containing a name and the same name plus '_no_prune' is judged against last-write-wins semantics and reported as known "
          "finding KF-C12-1 while that finding is listed; any other discrepancy on such a selection is a VIOLATION"]
KF = {"KF-C12-1": "a file containing games named 'x' and 'x_no_prune' yields keys x, x_no_prune, x_no_prune_no_prune: the unpruned entry of "
                  "'x' is overwritten by the pruned entry of 'x_no_prune' (output key format name + '_no_prune')"}


def run(ctx):
    PAIR_STRIDE[:] = [1, 0] if ctx.thorough else [2, ctx.seed % 2]
    _CACHE.clear()
    alpha, refs = setup()
    names = list(_CACHE["main_names"])
    kmax = 4 if ctx.thorough else 3
    sels = []
    for k in range(0, kmax + 1):
        for p in itertools.permutations(names, k):
            sels.append((p, False))
    file_names = [n for n in names if n not in B.API_ONLY]
    for k in range(0, 3 if ctx.thorough else 2):
        for p in itertools.permutations(file_names, k):
            sels.append((p, True))
    # every ordered two-game batch of the family U-PAIR (games that coincide in one aspect and differ in another)
    pn = _CACHE["pair_names"]
    npairs = 0
    for a in pn:
        for b in pn:
            if a != b:
                sels.append(((a, b), False))
                npairs += 1
    chunks = [sels[i::ctx.jobs * 2] for i in range(ctx.jobs * 2)]
    tot = par.run_shards(work, [c for c in chunks if c], ctx.jobs)
    known = tot.get("known", {})
    for kid, d in known.items():
        d["what"] = KF.get(kid, "")
    if tot["dicts"] != len(sels) and not tot.get("skipped_shards"):
        raise par.GuardError("C12: %d of %d selections run" % (tot["dicts"], len(sels)))
    cov = {"states": tot["dicts"], "transitions": tot["solves"], "traces_validated_against_impl": tot["dicts"],
           "evaluations": tot["dicts"], "distinct_nontrivial": tot["nontrivial"], "alphabet": names,
           "max_selection_length": kmax, "ordered_two_game_batches_of_U_PAIR": npairs, "selections_through_main": sum(1 for s in sels if s[1]),
           "solo_reference_outcomes": {n: [refs[n][True][0], refs[n][False][0]] for n in names}, "solo_references": "each game of the alphabets solved alone in a forked process of its own",
           "rule": RULE, "exhaustive": not tot.get("skipped_shards"), "samples": tot["samples"][:4]}
    return {"coverage": cov, "violations": tot["violations"], "known": known, "assumptions": ASSUME}


def replay(case):
    f, k = check_selection(tuple(case["input"]["selection"]), case["config"]["via_main"])
    for x in f + k:
        if x[0] == case["klass"]:
            return x[3]
    return f[0][3] if f else None
