"""C02 - reported expected rewards are the values of the conditioned game."""
from .. import par, sweep
from ._plans import stopping_plan

PROP = "C02"
RULE = ("every solvable stopping game (structure x reward vector) of the listed universes x both pruning modes; the conditioned game is "
        "rebuilt from the input description and the reported probabilities/strategies as the property states it, solved exactly, and "
        "compared on the states the property names; non-trivial = with pruning on, conditioning changed the transitions of some state "
        "reachable from the initial state (a dead branch removed and probabilities rescaled, or a Player-1 action cut)")
ASSUME = ["exact max-min total reward by strategy enumeration over Fractions",
          "tolerance: 1e-6*(1+A_R(G))*max(1,max reward) + 1e-9*|value| with A_R the exact largest expected absorption time of the conditioned game",
          "games whose compared part is not stopping after conditioning are counted as outside the hypothesis, not judged"]


def _vacuity(tot):
    if tot["nontrivial"] < 10:
        raise par.GuardError("C02 vacuity guard: %d" % tot["nontrivial"])


def run(ctx):
    rep = sweep.run_plan(ctx, PROP, stopping_plan(PROP, ctx), RULE, ASSUME, vacuity=_vacuity)
    from . import boards_c02
    boards_c02.extend(ctx, rep)
    return rep


def replay(case):
    if case.get("kind") == "board":
        from . import boards_c02
        return boards_c02.replay(case)
    return sweep.replay_game(PROP, case)
