"""C02 in Bellman-consistency form on games that need not be stopping or are too large for the exact oracle
(example inputs and committed boards): wherever solve() returns, the reported reward vector must be a fixed point of the
conditioned game's reward equations up to the threshold, on the states the property names."""
from .. import oracle as O, run as Rn
from ..inputs import board_games
from ..repo import P1, P2, PR

DELTA = 1e-6


def conditioned_float(g, probs, strats, prune):
    out = []
    for s, row in enumerate(g["transition_list"]):
        who = g["players"][s]
        if who == P1:
            row = [(a, t) for a, t in row if a in strats[s]]
            if prune:
                row = [(a, t) for a, t in row if probs[t] != 0]
        elif who == PR and prune:
            kept = [(p, t) for p, t in row if probs[t] != 0]
            tot = sum(p for p, _ in kept)
            row = [(p / tot, t) for p, t in kept]
        out.append(list(row))
    return out


def bellman_findings(g, res, prune):
    rew, probs, strats = res[2], res[3], res[1]
    ctl = conditioned_float(g, probs, strats, prune)
    states = sorted(O.reachable_from(ctl, 0)) if prune else range(len(ctl))
    for s in states:
        row = ctl[s]
        x = rew[s]
        if not row:
            fx = 0
        else:
            who = g["players"][s]
            if who == P1:
                fx = g["rewards"][s] + max(rew[t] for _, t in row)
            elif who == P2:
                fx = g["rewards"][s] + min(rew[t] for _, t in row)
            else:
                fx = g["rewards"][s] + sum(p * rew[t] for p, t in row)
        if abs(fx - x) > DELTA + 1e-9 * abs(x):
            return ("C02/board-bellman", s, (x, fx))
    return None


def _work(shard):
    idx, limit, cpu = shard
    fname, name, g = board_games(limit)[idx]
    out = {"n": 0, "judged": 0, "violations": []}
    for prune in (True, False):
        o = Rn.solve(g, prune, cpu_s=cpu, confirm=False)
        out["n"] += 1
        if o.kind != "ok":
            continue
        out["judged"] += 1
        r = bellman_findings(g, o.result, prune)
        if r:
            out["violations"].append({"kind": "board", "klass": r[0], "input": {"file": fname, "game": name},
                                      "config": {"prune": prune, "cpu_s": cpu}, "observed": repr(r[2]), "expected": None,
                                      "explanation": "%s/%s prune=%s: reported reward of state %d is %r but the conditioned Bellman step gives %r"
                                                     % (fname, name, prune, r[1], r[2][0], r[2][1])})
    return out


def extend(ctx, rep):
    from .. import par
    limit = 4100 if ctx.thorough else 260
    cpu = 60.0 if ctx.thorough else 3.0
    n = len(board_games(limit))
    tot = par.run_shards(_work, [(i, limit, cpu) for i in range(n)], ctx.jobs)
    rep["violations"].extend(tot.get("violations", []))
    rep["coverage"]["transitions"] += tot["n"]
    rep["coverage"]["board_runs"] = tot["n"]
    rep["coverage"]["board_runs_judged_in_bellman_form"] = tot["judged"]
    rep["coverage"]["traces_validated_against_impl"] += tot["judged"]
    rep["assumptions"].append("boards / example inputs: solve() runs that do not return within %.0f s CPU (non-stopping games with infinite "
                              "total reward) are not judged" % cpu)


def replay(case):
    inp = case["input"]
    for fname, name, g in board_games(None):
        if fname == inp["file"] and name == inp["game"]:
            prune = case["config"]["prune"]
            o = Rn.solve(g, prune, cpu_s=max(60.0, case["config"].get("cpu_s", 5.0) * 4), confirm=False)
            if o.kind != "ok":
                return None
            r = bellman_findings(g, o.result, prune)
            return repr(r) if r else None
    return "input game not found"
