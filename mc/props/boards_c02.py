"""C02 in Bellman-consistency form on games that need not be stopping or are too large for the exact oracle
(example inputs and committed boards): wherever solve() returns, the reported reward vector must be a fixed point of the
conditioned game's reward equations up to the threshold, on the states the property names."""
from .. import oracle as O, run as Rn
from .. import boards
from ..inputs import board_games
from ..repo import P1, P2, PR

DELTA = 1e-6


def conditioned_float(g, probs, strats, prune):
    out = []
    for s, row in enumerate(g["transition_list"]):
        who = g["players"][s]
        if who == P1:
            row = [(a, t) for a, t in row if a in strats[s]]
            if prune:
                row = [(a, t) for a, t in row if probs[t] != 0]
        elif who == PR and prune:
            kept = [(p, t) for p, t in row if probs[t] != 0]
            tot = sum(p for p, _ in kept)
            row = [(p / tot, t) for p, t in kept]
        out.append(list(row))
    return out


def bellman_findings(g, res, prune):
    rew, probs, strats = res[2], res[3], res[1]
    ctl = conditioned_float(g, probs, strats, prune)
    states = sorted(O.reachable_from(ctl, 0)) if prune else range(len(ctl))
    for s in states:
        row = ctl[s]
        x = rew[s]
        if not row:
            fx = 0
        else:
            who = g["players"][s]
            if who == P1:
                fx = g["rewards"][s] + max(rew[t] for _, t in row)
            elif who == P2:
                fx = g["rewards"][s] + min(rew[t] for _, t in row)
            else:
                fx = g["rewards"][s] + sum(p * rew[t] for p, t in row)
        if abs(fx - x) > DELTA + 1e-9 * abs(x):
            return ("C02/board-bellman", s, (x, fx))
    return None


def _items(shard):
    kind, arg, cpu = shard
    if kind == "file":
        return [("%s/%s" % (f, nme), {"file": f, "game": nme}, g) for f, nme, g in board_games(None) if (f, nme) == arg]
    d = boards.generate(*arg)
    return [("%s %s" % (boards.label(arg), k), {"generated": list(arg[:4]) + [list(arg[4])], "game": k}, d[k]) for k in sorted(d)]


def _work(shard):
    cpu = shard[2]
    out = {"n": 0, "judged": 0, "violations": []}
    for lab, inp, g in _items(shard):
        for prune in (True, False):
            o = Rn.solve(g, prune, cpu_s=cpu, confirm=False)
            out["n"] += 1
            if o.kind != "ok":
                continue
            out["judged"] += 1
            r = bellman_findings(g, o.result, prune) or inclusion_findings(g, o.result)
            if r:
                out["violations"].append({"kind": "board", "klass": r[0], "input": inp,
                                          "config": {"prune": prune, "cpu_s": cpu}, "observed": repr(r[2]), "expected": None,
                                          "explanation": "%s prune=%s: %s at state %d: %r" % (lab, prune, r[0], r[1], r[2])})
    return out


def inclusion_findings(g, res):
    return None


def extend(ctx, rep, only=None):
    from .. import par
    limit = 4100 if ctx.thorough else 260
    cpu = 60.0 if ctx.thorough else 3.0
    shards = [("file", (f, nme), cpu) for f, nme, g in board_games(limit)]
    shards += [("gen", b, cpu) for b in boards.board_list(ctx.thorough, ctx.seed)]
    tot = par.run_shards(_work, shards, ctx.jobs)
    rep["violations"].extend(tot.get("violations", []))
    rep["coverage"]["transitions"] += tot["n"]
    rep["coverage"]["board_runs"] = tot["n"]
    rep["coverage"]["board_runs_judged_in_bellman_form"] = tot["judged"]
    rep["coverage"]["traces_validated_against_impl"] += tot["judged"]
    rep["assumptions"].append("boards / example inputs: solve() runs that do not return within %.0f s CPU (non-stopping games with infinite "
                              "total reward, see KF-C11-1) are not judged" % cpu)


def replay(case):
    inp = case["input"]
    prune = case["config"]["prune"]
    if "generated" in inp:
        b = inp["generated"]
        g = boards.generate(b[0], b[1], b[2], b[3], tuple(b[4]))[inp["game"]]
    else:
        g = None
        for fname, name, gg in board_games(None):
            if fname == inp["file"] and name == inp["game"]:
                g = gg
        if g is None:
            return "input game not found"
    o = Rn.solve(g, prune, cpu_s=max(60.0, case["config"].get("cpu_s", 5.0) * 4), confirm=False)
    if o.kind != "ok":
        return None
    r = bellman_findings(g, o.result, prune)
    return repr(r) if r else None
