"""C14 - cross-objective diagnostics match the reported strategies."""
from .. import par, sweep
from ._plans import stopping_plan

PROP = "C14"
RULE = ("every solvable stopping game of the listed universes x reward vectors x both modes that is in scope (final strategies single actions "
        "and exact reward optimum unique at every player state reachable in the conditioned game); both diagnostic vectors are recomputed "
        "exactly from the reported strategies; non-trivial = in scope and some reachable player state has >= 2 permitted actions")
ASSUME = ["exact chain and game values from the reference solver", "tolerance as for C02"]


def _vacuity(tot):
    if tot["nontrivial"] < 10:
        raise par.GuardError("C14 vacuity guard: %d" % tot["nontrivial"])


def run(ctx):
    return sweep.run_plan(ctx, PROP, stopping_plan(PROP, ctx), RULE, ASSUME, vacuity=_vacuity)


def replay(case):
    return sweep.replay_game(PROP, case)
