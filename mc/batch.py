"""Shared machinery of C12 (batch isolation) and C16 (report fidelity): the 7-game alphabet, solo reference
results, expected batch entries, file renderings and an independent parser of the report format."""
import ast
import copy
import os
import pickle
import pprint

from . import budget
from .repo import tad, conditionalrewards as CR, roberta_generator as G, P1, P2, PR, REPO

RULE_LINE = "=" * 160
FIELDS = [("Running example", None), ("Message", "msg"), ("number of states", "n_states"),
          ("number of transitions", "n_transitions"), ("n iterations reach", "n_iterations_reach"),
          ("n iterations rew", "n_iterations_rew"), ("Reachability strategies", "reachability_strategies"),
          ("Final strategies", "final_strategies"), ("Are equal", None), ("Probabilities", "probabilities"),
          ("Probabilities min rew", "prob_min_rew"), ("Rewards", "rewards"), ("Rewards min reach", "rew_min_reach"),
          ("Total time", "total_time")]
DEFAULTS = {"reachability_strategies": None, "final_strategies": None, "rewards": None, "probabilities": None,
            "n_iterations_reach": 0, "n_iterations_rew": 0, "prob_min_rew": 0, "rew_min_reach": 0}
RESULT_KEYS = ["final_strategies", "reachability_strategies", "rewards", "probabilities", "n_iterations_reach",
               "n_iterations_rew", "prob_min_rew", "rew_min_reach"]


API_ONLY = ("fr", "dc")       # games whose values have no literal form: only run through run_games(), never written to a file


def alphabet(api_only=False):
    """name -> game: 5 solvable, 2 unsolvable when pruned, 3 malformed; 'x' and 'x_no_prune' collide on purpose"""
    fig55 = CR.read_dict_from_file(os.path.join(REPO, "inputs", "example_games.py"))["game_5_5"]
    g = {k: copy.deepcopy(fig55[k]) for k in ("rewards", "players", "transition_list", "final_states")}
    # P1 prefers a; the P2 state 2 is then referenced by nobody, gets emptied and reports an empty final strategy;
    # a probabilistic cycle makes values converge only in the limit; reward 5/3 and probability 1/4 for the expression rendering
    x = dict(rewards=[1, 5 / 3, 2, 0, 0], players=[P1, PR, P2, PR, PR],
             transition_list=[[("a", 1), ("b", 2)], [(0.25, 1), (0.75, 4)], [("c", 3), ("d", 1)], [(1, 3)], [(1, 4)]],
             final_states=[4])
    # long float vectors: game C of a generated 2x2 board (42 states)
    moves, rewards, loose = G.gen_rnd_board(3, 2, 2, 0.3, 3, True)
    import tempfile, shutil
    tmp = tempfile.mkdtemp(prefix="crverif_batch_")
    try:
        G.write_robots(os.path.join(tmp, "b.py"), 2, 2, moves, rewards, loose, 0.1, 0.1, 0.1)
        board = CR.read_dict_from_file(os.path.join(tmp, "b.py"))["game_c"]
    finally:
        shutil.rmtree(tmp, ignore_errors=True)
    game_a = {k: board[k] for k in ("rewards", "players", "transition_list", "final_states")}
    u1 = dict(rewards=[1, 0, 0], players=[PR, PR, PR], transition_list=[[(1, 1)], [(1, 1)], [(1, 2)]], final_states=[2])
    u2 = dict(rewards=[0, 1, 0, 0], players=[P2, PR, PR, PR],
              transition_list=[[("go", 1), ("stay", 2)], [(0.5, 3), (0.5, 2)], [(1, 2)], [(1, 3)]], final_states=[3])
    m1 = dict(rewards=[0, -1, 0], players=[P1, PR, PR], transition_list=[[("a", 1)], [(1, 2)], [(1, 2)]], final_states=[2])
    m2 = dict(rewards=[0, 0, 0], players=[P1, PR, PR], transition_list=[[("a", 1)], None, [(1, 2)]], final_states=[2])
    # solvable, with a Player-1 state all of whose moves are dead (pruning empties it) below a probabilistic branch
    d = dict(rewards=[1, 1, 0, 0], players=[PR, P1, PR, PR],
             transition_list=[[(0.5, 1), (0.5, 3)], [("l", 2), ("r", 2)], [(1, 2)], [(1, 3)]], final_states=[3])
    # no dead and no unreferenced state, but a probabilistic self-loop whose value stops at 0.999999: Player 1 then keeps only
    # the action worth exactly 1, so pruned and unpruned runs differ although "nothing can be pruned" (KF-C04-1 at work)
    lp = dict(rewards=[0, 2, 1, 0], players=[P1, PR, PR, PR],
              transition_list=[[("a", 3), ("ab", 1)], [(1, 2)], [(0.5, 2), (0.5, 3)], [(1, 3)]], final_states=[3])
    # descriptions may legally carry their own 'prune_states' entry (the batch runner must neither follow it nor change it; before 367f1f8 run_games left prune_states=False behind in every game it had run)
    u2["prune_states"] = False
    d["prune_states"] = True
    # malformed: no final state (the ValueError comes from a built-in, not from an explicit check)
    nf = dict(rewards=[0, 0], players=[PR, PR], transition_list=[[(1, 1)], [(1, 1)]], final_states=[])
    # non-ASCII action names (the reader must decode the file as it was written: UTF-8)
    x["transition_list"][0] = [("\u03b1_1", 1), ("\u00f1b", 2)]
    # a well-formed game and the same description typed differently ("twins"): three malformed ones (a successor index written 2.0,
    # transitions written as lists, a transition list written as a tuple) and a legal one (1.0 / True for 1, final states as a tuple);
    # whatever each gives alone, it must give next to its twins
    tw = dict(rewards=[0, 2, 1, 0, 0], players=[P1, PR, PR, PR, PR],
              transition_list=[[("a", 1), ("b", 2)], [(0.5, 3), (0.5, 4)], [(0.5, 3), (0.5, 4)], [(1, 3)], [(1, 4)]], final_states=[3])
    tw_float = copy.deepcopy(tw)
    tw_float["transition_list"][0] = [("a", 1), ("b", 2.0)]
    tw_lists = copy.deepcopy(tw)
    tw_lists["transition_list"][0] = [["a", 1], ["b", 2]]
    tw_tuple = copy.deepcopy(tw)
    tw_tuple["transition_list"][3] = ((1, 3),)
    tw_legal = copy.deepcopy(tw)
    tw_legal["rewards"] = [0, 2.0, True, 0.0, False]
    tw_legal["transition_list"][3] = [(1.0, 3)]
    tw_legal["transition_list"][4] = [(True, 4)]
    tw_legal["final_states"] = (3,)
    out = [("g", g), ("x", x), ("game_a", game_a), ("d_p1", d), ("lp", lp), ("x_no_prune", u1), ("g_1", u2), ("m_1", m1), ("b2", m2), ("nf", nf),
           ("tw", tw), ("tw_float", tw_float), ("tw_lists", tw_lists), ("tw_tuple", tw_tuple), ("tw_legal", tw_legal)]
    if api_only:
        # values that are numbers but not built-in literals: rational rewards (whatever the solver does with them alone, it must do in a
        # batch) and a decimal probability
        from fractions import Fraction
        from decimal import Decimal
        fr = copy.deepcopy(tw)
        fr["rewards"] = [0, Fraction(5, 2), Fraction(1, 2), 0, 0]
        dc = copy.deepcopy(tw)
        dc["transition_list"][1] = [(Decimal("0.5"), 3), (Decimal("0.5"), 4)]
        out += [("fr", fr), ("dc", dc)]
    return out


def pair_alphabet(stride=1, offset=0):
    """the family U-PAIR under the names u000, u001, ...: used for all ordered two-game batches"""
    from . import universe as U
    fam = U.U_PAIR_games()
    if stride > 1:
        fam = fam[offset % stride::stride]
    return [("u%03d" % i, g) for i, g in enumerate(fam)]


def count_transitions(game):
    return sum(len(r) for r in game["transition_list"] if isinstance(r, (list, tuple)))


def solo(game, prune):
    """('ok', tuple) | ('err', message) | ('crash', text) - solving a pristine deep copy of this game alone"""
    def fn():
        g = copy.deepcopy(game)
        g.pop("prune_states", None)              # the mode of an entry is the batch runner's, not the description's
        return tad.StochasticGame(prune_states=prune, **g).solve()
    st, val = budget.run_budgeted(fn, cpu_s=20.0, max_lines=50_000_000)
    if st == "ok":
        return ("ok", val)
    if st == "exc" and isinstance(val, ValueError):
        return ("err", str(val))
    return ("crash", repr(val))


def solo_references(games):
    """solo results of every game in both modes, each game in a forked process of its own (no game is solved after another one)"""
    from . import par
    return {name: par.in_forked_child(lambda: {True: solo(g, True), False: solo(g, False)}) for name, g in games}


def _solo_references_one_child(games):
    r, w = os.pipe()
    pid = os.fork()
    if pid == 0:
        try:
            os.close(r)
            out = {name: {True: solo(g, True), False: solo(g, False)} for name, g in games}
            with os.fdopen(w, "wb") as f:
                pickle.dump(out, f)
        finally:
            os._exit(0)
    os.close(w)
    with os.fdopen(r, "rb") as f:
        data = f.read()
    os.waitpid(pid, 0)
    return pickle.loads(data)


def expected_entries(selection, refs):
    """ordered list of (key, entry-without-total_time) the batch run must produce for this ordered selection"""
    out = []
    for name, game in selection:
        base = {"n_states": len(game["players"]), "n_transitions": count_transitions(game)}
        ref = refs[name]
        pruned = dict(base, **DEFAULTS)
        if ref[True][0] == "ok":
            pruned.update(dict(zip(RESULT_KEYS, ref[True][1])))
            pruned["msg"] = "Game solved"
        else:
            pruned["msg"] = "Error while solving the game: %s" % ref[True][1]
        out.append((name, pruned))
        unpruned = dict(base, **DEFAULTS)
        if ref[True][0] != "ok":
            unpruned["msg"] = "Game not solved"
        elif ref[False][0] == "ok":
            unpruned.update(dict(zip(RESULT_KEYS, ref[False][1])))
            unpruned["msg"] = "Game solved"
        else:
            unpruned["msg"] = "Error while solving the game: %s" % ref[False][1]
        out.append((name + "_no_prune", unpruned))
    return out


def has_name_collision(names):
    s = set(names)
    return any((n + "_no_prune") in s for n in names)


def compare_entries(result, expected):
    """result: dict returned by run_games; expected: ordered list of (key, entry). returns None or description"""
    if not isinstance(result, dict):
        return "run_games returned %r" % type(result).__name__
    keys = [k for k, _ in expected]
    if list(result.keys()) != keys:
        return "result keys %r, expected %r" % (list(result.keys()), keys)
    for k, exp in expected:
        got = result[k]
        if set(got.keys()) != set(exp.keys()) | {"total_time"}:
            return "entry %s has fields %r" % (k, sorted(got.keys()))
        if not isinstance(got["total_time"], float) or got["total_time"] < 0:
            return "entry %s: total_time %r" % (k, got["total_time"])
        for fld, v in exp.items():
            if got[fld] != v or type(got[fld]) != type(v):
                return "entry %s field %s: %r, solving that game alone gives %r" % (k, fld, _short(got[fld]), _short(v))
    return None


def _short(x):
    s = repr(x)
    return s if len(s) < 200 else s[:200] + "..."


# ------------------------------------------------------------------------------------------- file renderings

def render(d, style):
    """three textual renderings of the same dictionary"""
    if style == "repr":
        return repr(d)
    if style == "generator":
        text = "# Board:\n#\n#   [0|<-( )] [1|v(X)]\n\n" + pprint.pformat(d, width=120, sort_dicts=False) + "\n"
        return text
    if style == "expressions":
        text = repr(d)
        text = text.replace(repr(0.25), "1/4").replace(repr(5 / 3), "5/3").replace(repr(0.75), "(1 - 1/4)").replace(repr(0.5), "2**-1")
        return "# expressions instead of literals\n" + text + "\n"
    if style == "calls":
        # the same dictionary denoted with calls of built-in functions, and the text indented by blanks and a tab
        text = repr(d)
        text = text.replace(repr(0.25), 'float("0.25")').replace(repr(0.5), "float(1) / int('2')").replace("[(1, ", "[(int(True), ")
        return "  \t dict(" + text + ")\n"
    raise ValueError(style)


# ------------------------------------------------------------------------------------------- report parser

STALE_REPORT = ("=" * 160 + "\n" + "Running example         : stale entry of an earlier run\n" + "Message                 : Game solved\n" * 12) * 40


def parse_report(text):
    """independent parser: blocks are introduced by a line of 160 '=', every line is a 24-character label, ': ', value"""
    lines = text.split("\n")
    if lines and lines[-1] == "":
        lines = lines[:-1]
    blocks = []
    cur = None
    for ln in lines:
        if ln == RULE_LINE:
            cur = []
            blocks.append(cur)
            continue
        if cur is None:
            raise ValueError("text before the first rule line: %r" % ln[:60])
        cur.append(ln)
    out = []
    for b in blocks:
        if len(b) != len(FIELDS):
            raise ValueError("block with %d lines, expected %d" % (len(b), len(FIELDS)))
        rec = {}
        for ln, (label, key) in zip(b, FIELDS):
            head, sep, val = ln[:24], ln[24:26], ln[26:]
            if head != label.ljust(24) or sep != ": ":
                raise ValueError("line %r does not start with label %r" % (ln[:40], label))
            rec[label] = val
        out.append(rec)
    return out


def compare_report(blocks, result):
    """blocks parsed from the report vs the dict the batch run produced (run order); returns None or description"""
    keys = list(result.keys())
    if [b["Running example"] for b in blocks] != keys:
        return "report blocks %r, run order %r" % ([b["Running example"] for b in blocks], keys)
    for b, k in zip(blocks, keys):
        entry = result[k]
        for label, fld in FIELDS:
            if fld is None:
                continue
            text = b[label]
            if fld == "msg":
                if text != entry["msg"]:
                    return "block %s: Message %r, computed %r" % (k, text, entry["msg"])
                continue
            try:
                val = ast.literal_eval(text)
            except (ValueError, SyntaxError):
                return "block %s: line %r does not read back as a value: %r" % (k, label, text[:80])
            if fld == "total_time":
                if not isinstance(val, float):
                    return "block %s: Total time %r is not a float" % (k, text)
                continue
            if val != entry[fld] or type(val) != type(entry[fld]):
                return "block %s: line %r reads back as %s, the batch run produced %s" % (k, label, _short(val), _short(entry[fld]))
        eq = ast.literal_eval(b["Are equal"]) if b["Are equal"] in ("True", "False") else None
        if eq is None or eq != (entry["reachability_strategies"] == entry["final_strategies"]):
            return "block %s: 'Are equal' says %r" % (k, b["Are equal"])
    return None
