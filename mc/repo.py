"""Binding to the code under test: imports the repository's modules from its *current working tree*.

The repository is pure Python, so "rebuilding" it means importing it afresh in a new process.
CR_VERIF_REPO (default /repo) selects the tree; the self-test uses it to point at scratch copies.
"""
import logging
import os
import sys

REPO = os.path.abspath(os.environ.get("CR_VERIF_REPO", "/repo"))
sys.dont_write_bytecode = True          # never leave __pycache__ behind in the tree under test
if REPO in sys.path:
    sys.path.remove(REPO)
sys.path.insert(0, REPO)

import tad                                      # noqa: E402
import reverse_dfs                              # noqa: E402
import conditionalrewards                       # noqa: E402
import roberta_generator                        # noqa: E402
import stochastic_game_from_roborta_board       # noqa: E402

for _m in (tad, reverse_dfs, conditionalrewards, roberta_generator, stochastic_game_from_roborta_board):
    _where = os.path.dirname(os.path.abspath(_m.__file__))
    if _where != REPO:
        raise RuntimeError("harness error: %s imported from %s, expected %s" % (_m.__name__, _where, REPO))

logging.getLogger().addHandler(logging.NullHandler())    # so that logging.info() never installs a stream handler via basicConfig()
logging.disable(logging.CRITICAL)       # the library logs through the root logger; output is never an observation

import contextlib                               # noqa: E402


@contextlib.contextmanager
def debug_logging():
    """the tool's '-l d' configuration: root logger at DEBUG and nothing disabled, records swallowed by the NullHandler; a
    configuration that must not change any result"""
    root = logging.getLogger()
    old = root.level
    logging.disable(logging.NOTSET)
    root.setLevel(logging.DEBUG)
    try:
        yield
    finally:
        root.setLevel(old)
        logging.disable(logging.CRITICAL)


P1, P2, PR = "Player 1", "Player 2", "Probabilistic"
NOSOL = "The game has no solution. The initial state has a reach probability of 0."

# --- observation of the conditioned transition lists (C03) without touching the source -----------------
# Snapshot of every state's transition list at entry to Solver.solve_total_rewards, i.e. after
# Solver.prune_reachability (+ Solver.prune_stochastich_game when pruning) and before reward iteration.
SNAP = {}
_orig_solve_total_rewards = tad.Solver.solve_total_rewards


def _observing_solve_total_rewards(self):
    SNAP["next"] = [list(s.next_states) for s in self.state_list]
    return _orig_solve_total_rewards(self)


tad.Solver.solve_total_rewards = _observing_solve_total_rewards
