"""Exact reference solver ("boring" reference model) for small turn-based stochastic games.

No value iteration and no floats: every pair of pure memoryless strategies is enumerated, the induced
Markov chain is solved exactly over Fractions (graph closure + Gaussian elimination) and the game value
is max over Player 1 of min over Player 2, state-wise (turn-based stochastic reachability / stopping
total-reward games are determined in pure memoryless strategies, uniformly in the start state).

Shares no code and no algorithm with tad.py.
"""
import itertools
from fractions import Fraction as F
from math import inf

P1, P2, PR = "Player 1", "Player 2", "Probabilistic"


def to_frac(x):
    """Probability literals denote the decimal rationals they are written as (0.1 -> 1/10)."""
    if isinstance(x, F):
        return x
    if isinstance(x, int):
        return F(x)
    return F(repr(x))


def exact_rows(tl):
    return [[(lab if isinstance(lab, str) else to_frac(lab), t) for lab, t in row] for row in tl]


def solve_lin(A, b_cols):
    """Solve A X = B exactly; b_cols is a list of right-hand-side columns; returns list of solution columns."""
    n = len(A)
    k = len(b_cols)
    M = [list(A[i]) + [col[i] for col in b_cols] for i in range(n)]
    for c in range(n):
        p = None
        for r in range(c, n):
            if M[r][c] != 0:
                p = r
                break
        if p is None:
            raise ZeroDivisionError("singular system")
        if p != c:
            M[c], M[p] = M[p], M[c]
        inv = 1 / M[c][c]
        if inv != 1:
            M[c] = [x * inv for x in M[c]]
        rowc = M[c]
        for r in range(n):
            if r != c:
                f = M[r][c]
                if f != 0:
                    M[r] = [x - f * y for x, y in zip(M[r], rowc)]
    return [[M[i][n + j] for i in range(n)] for j in range(k)]


# ----------------------------------------------------------------------------------------------- chains

def chain_reach(n, succ, finals):
    """Exact probability of ever visiting `finals` in the Markov chain succ[s] = [(p, t), ...]."""
    if n > 12:
        order = topo_order(succ)
        if order is not None:
            return dp_chain_reach(n, succ, finals, order)
    fin = set(finals)
    can = set(fin)
    changed = True
    while changed:
        changed = False
        for s in range(n):
            if s not in can:
                for p, t in succ[s]:
                    if p > 0 and t in can:
                        can.add(s)
                        changed = True
                        break
    T = [s for s in range(n) if s in can and s not in fin]
    v = [F(0)] * n
    for s in fin:
        v[s] = F(1)
    if T:
        idx = {s: i for i, s in enumerate(T)}
        A = [[F(0)] * len(T) for _ in T]
        b = [F(0)] * len(T)
        for s in T:
            i = idx[s]
            A[i][i] += 1
            for p, t in succ[s]:
                if t in fin:
                    b[i] += p
                elif t in idx:
                    A[i][idx[t]] -= p
        x = solve_lin(A, [b])[0]
        for s in T:
            v[s] = x[idx[s]]
    return v


def _closure(n, succ):
    reach = [set(t for p, t in succ[s] if p > 0) for s in range(n)]
    clo = [set(r) for r in reach]
    changed = True
    while changed:
        changed = False
        for s in range(n):
            new = set()
            for t in clo[s]:
                new |= clo[t]
            if not new <= clo[s]:
                clo[s] |= new
                changed = True
    return clo


class ChainReward:
    """Fundamental matrix of a chain; total expected reward for any reward vector.

    A state with an empty successor list is worth 0 (and collects nothing), exactly as the conditioned
    game of the property statement: "empty transition list gives 0".
    """

    def __init__(self, n, succ):
        self.n = n
        clo = _closure(n, succ)
        self.clo = clo
        # recurrent: non-empty and every state reachable from s can come back to s
        self.recurrent = set(s for s in range(n) if succ[s] and all(s in clo[t] for t in clo[s]))
        self.sink = set(s for s in range(n) if not succ[s])
        T = [s for s in range(n) if s not in self.recurrent and s not in self.sink]
        self.T = T
        self.idx = {s: i for i, s in enumerate(T)}
        if T:
            A = [[F(0)] * len(T) for _ in T]
            for s in T:
                i = self.idx[s]
                A[i][i] += 1
                for p, t in succ[s]:
                    if t in self.idx:
                        A[i][self.idx[t]] -= p
            ident = [[F(1) if i == j else F(0) for i in range(len(T))] for j in range(len(T))]
            cols = solve_lin(A, ident)          # cols[j][i] = N[i][j]
            self.N = [[cols[j][i] for j in range(len(T))] for i in range(len(T))]
        else:
            self.N = []

    def values(self, rew):
        n = self.n
        bad = set(s for s in self.recurrent if rew[s] > 0)
        out = [F(0)] * n
        for s in range(n):
            if s in self.sink:
                continue
            if s in bad or (self.clo[s] & bad):
                out[s] = inf
            elif s in self.idx:
                row = self.N[self.idx[s]]
                out[s] = sum((row[self.idx[t]] * rew[t] for t in self.T if rew[t]), F(0))
        return out

    def times(self):
        """expected number of steps spent in transient states, per start state (0 elsewhere)."""
        out = [F(0)] * self.n
        for s in self.T:
            out[s] = sum(self.N[self.idx[s]], F(0))
        return out

    def has_nonabsorbing_recurrent(self, succ):
        return any(any(t != s for _, t in succ[s]) for s in self.recurrent)


def chain_time_in(n, succ, T):
    """Expected number of steps spent in the set T (must be left with probability 1)."""
    T = sorted(T)
    out = [F(0)] * n
    if not T:
        return out
    idx = {s: i for i, s in enumerate(T)}
    A = [[F(0)] * len(T) for _ in T]
    for s in T:
        i = idx[s]
        A[i][i] += 1
        for p, t in succ[s]:
            if t in idx:
                A[i][idx[t]] -= p
    x = solve_lin(A, [[F(1)] * len(T)])[0]
    for s in T:
        out[s] = x[idx[s]]
    return out


# ------------------------------------------------------------------------------------------------ games

def _choice_sets(players, tl, who, restrict=None):
    idxs = [s for s, p in enumerate(players) if p == who and tl[s]]
    ranges = []
    for s in idxs:
        if restrict is not None and s in restrict:
            ranges.append(list(restrict[s]))
        else:
            ranges.append(range(len(tl[s])))
    return idxs, ranges


def strategies(players, tl, who, restrict=None):
    idxs, ranges = _choice_sets(players, tl, who, restrict)
    for choice in itertools.product(*ranges):
        yield dict(zip(idxs, choice))


def induced(players, tl, sig, tau):
    succ = []
    one = F(1)
    for s, p in enumerate(players):
        row = tl[s]
        if not row:
            succ.append([])
        elif p == P1:
            succ.append([(one, row[sig[s]][1])])
        elif p == P2:
            succ.append([(one, row[tau[s]][1])])
        else:
            succ.append(row)
    return succ


def _vmin(a, b):
    return [x if x <= y else y for x, y in zip(a, b)]


def _vmax(a, b):
    return [x if x >= y else y for x, y in zip(a, b)]


def reach_values(players, tl, finals, restrict1=None, restrict2=None, want_A=False):
    """max-min probability of ever visiting `finals`, per state (exact).

    tl must already be exact (exact_rows). Final states have value 1 whatever their transitions.
    With want_A also returns A(G): the largest expected number of steps spent in
    T = {non-final states of positive value} over Player-1 strategies that are optimal everywhere
    and arbitrary Player-2 strategies (the amplification factor of the stopping rule, DESIGN 1.5).
    """
    n = len(players)
    taus = list(strategies(players, tl, P2, restrict2))
    per_sigma = []
    best = None
    for sig in strategies(players, tl, P1, restrict1):
        worst = None
        for tau in taus:
            v = chain_reach(n, induced(players, tl, sig, tau), finals)
            worst = v if worst is None else _vmin(worst, v)
        per_sigma.append((sig, worst))
        best = worst if best is None else _vmax(best, worst)
    # determinacy self-check (min-max == max-min), cheap because everything is enumerated anyway
    if not want_A:
        return best
    fin = set(finals)
    T = set(s for s in range(n) if best[s] > 0 and s not in fin)
    A = F(0)
    for sig, worst in per_sigma:
        if worst != best:
            continue
        for tau in taus:
            et = chain_time_in(n, induced(players, tl, sig, tau), T)
            m = max(et)
            if m > A:
                A = m
    return best, A


def reach_values_minmax(players, tl, finals):
    """min over Player 2 of max over Player 1 (used only for the determinacy self-check)."""
    n = len(players)
    sigs = list(strategies(players, tl, P1))
    best = None
    for tau in strategies(players, tl, P2):
        top = None
        for sig in sigs:
            v = chain_reach(n, induced(players, tl, sig, tau), finals)
            top = v if top is None else _vmax(top, v)
        best = top if best is None else _vmin(best, top)
    return best


class RewardGame:
    """max-min expected total reward of a (conditioned) game for any reward vector; exact.

    The strategy pairs and their fundamental matrices are computed once and reused for every reward
    vector of the structure.
    """

    def __init__(self, players, tl, restrict1=None, restrict2=None):
        self.players = players
        self.tl = tl
        self.n = len(players)
        self.table = []       # [(sig, [ (tau, ChainReward) ... ])]
        taus = list(strategies(players, tl, P2, restrict2))
        for sig in strategies(players, tl, P1, restrict1):
            row = []
            for tau in taus:
                succ = induced(players, tl, sig, tau)
                row.append((tau, ChainReward(self.n, succ), succ))
            self.table.append((sig, row))

    def values(self, rew):
        best = None
        for sig, row in self.table:
            worst = None
            for tau, cr, _ in row:
                v = cr.values(rew)
                worst = v if worst is None else _vmin(worst, v)
            best = worst if best is None else _vmax(best, worst)
        return best

    def max_time(self, states):
        """largest expected absorption time from `states` over all strategy pairs (inf if some pair
        can stay in a non-absorbing recurrent class)."""
        A = F(0)
        for sig, row in self.table:
            for tau, cr, succ in row:
                if cr.has_nonabsorbing_recurrent(succ):
                    # a zero-reward cycle among non-absorbing states: iteration error is not amplified by
                    # time spent there only if it is never entered from `states`
                    rec = set(s for s in cr.recurrent if any(t != s for _, t in succ[s]))
                    if any((s in rec) or (cr.clo[s] & rec) for s in states):
                        return inf
                t = cr.times()
                for s in states:
                    if t[s] > A:
                        A = t[s]
        return A


def is_stopping(players, tl, rewards, finals):
    """Exact graph test of the hypothesis of C02/C06/C13/C14: finals absorbing, absorbing states carry
    reward 0, and there is no end component among the non-absorbing states."""
    n = len(players)
    absorbing = set(s for s in range(n) if all(t == s for _, t in tl[s]))
    if any(f not in absorbing for f in finals):
        return False
    if any(rewards[s] for s in absorbing):
        return False
    return not end_component_states(players, tl, absorbing)


def end_component_states(players, tl, absorbing):
    n = len(players)
    C = set(range(n)) - set(absorbing)
    changed = True
    while changed:
        changed = False
        for s in list(C):
            succs = [t for _, t in tl[s]]
            if players[s] == PR:
                stay = all(t in C for t in succs)
            else:
                stay = any(t in C for t in succs)
            if not stay:
                C.discard(s)
                changed = True
    return C


def structure_is_stopping(players, tl, finals):
    """stopping for every reward vector that is 0 on absorbing states."""
    n = len(players)
    absorbing = set(s for s in range(n) if all(t == s for _, t in tl[s]))
    if any(f not in absorbing for f in finals):
        return False, absorbing
    return (not end_component_states(players, tl, absorbing)), absorbing


def can_reach(tl, finals):
    """states with a path to a final state (graph closure; finals included)."""
    n = len(tl)
    can = set(finals)
    changed = True
    while changed:
        changed = False
        for s in range(n):
            if s not in can and any(t in can for _, t in tl[s]):
                can.add(s)
                changed = True
    return can


def conditioned(players, tl, probs, reach_strats, prune):
    """The conditioned game of the property statement, built from the INPUT description and the REPORTED
    probabilities and reachability strategies, in exact arithmetic.  tl must be exact rows."""
    out = []
    for s, row in enumerate(tl):
        who = players[s]
        if who == P1:
            row = [(a, t) for a, t in row if a in reach_strats[s]]
            if prune:
                row = [(a, t) for a, t in row if probs[t] != 0]
        elif who == PR and prune:
            kept = [(p, t) for p, t in row if probs[t] != 0]
            tot = sum((p for p, _ in kept), F(0))
            row = [(p / tot, t) for p, t in kept]
        else:
            row = list(row)
        out.append(row)
    return out


def reachable_from(tl, start=0):
    seen = {start}
    todo = [start]
    while todo:
        s = todo.pop()
        for _, t in tl[s]:
            if t not in seen:
                seen.add(t)
                todo.append(t)
    return seen


# ---------------------------------------------------------------------- exact dynamic programming on acyclic games
# For games without cycles (apart from the self-loops of absorbing states) max-min values follow by backward induction
# over a topological order: exact, linear in the size of the game and independent of the number of choices, so games
# with hundreds of states and player states can be decided exactly.

def topo_order(tl):
    """states ordered so that every successor comes before its predecessors, ignoring self-loops of states whose
    transitions are all self-loops; None if the graph has another cycle"""
    n = len(tl)
    succ = []
    for s in range(n):
        ts = set(t for _, t in tl[s])
        if ts == {s}:
            ts = set()
        succ.append(ts)
    if any(s in succ[s] for s in range(n)):
        return None
    indeg = [0] * n
    pred = [[] for _ in range(n)]
    for s in range(n):
        for t in succ[s]:
            pred[t].append(s)
    remaining = [len(succ[s]) for s in range(n)]
    order = [s for s in range(n) if remaining[s] == 0]
    i = 0
    while i < len(order):
        t = order[i]
        i += 1
        for s in pred[t]:
            remaining[s] -= 1
            if remaining[s] == 0:
                order.append(s)
    return order if len(order) == n else None


def dp_reach(players, tl, finals, order, restrict1=None, restrict2=None):
    fin = set(finals)
    v = [F(0)] * len(players)
    for s in order:
        if s in fin:
            v[s] = F(1)
            continue
        row = tl[s]
        if not row or all(t == s for _, t in row):
            v[s] = F(0)
            continue
        who = players[s]
        if who == PR:
            v[s] = sum((p * v[t] for p, t in row), F(0))
        else:
            r = (restrict1 if who == P1 else restrict2) or {}
            idxs = r.get(s, range(len(row)))
            vals = [v[row[i][1]] for i in idxs]
            v[s] = max(vals) if who == P1 else min(vals)
    return v


def dp_depth(tl, order, states=None):
    """longest path (number of steps through non-absorbing states) from each state"""
    d = [0] * len(tl)
    for s in order:
        row = tl[s]
        if not row or all(t == s for _, t in row):
            d[s] = 0
        else:
            d[s] = 1 + max(d[t] for _, t in row)
    return d


class DPRewardGame:
    """same interface as RewardGame (values, max_time) for acyclic conditioned games of any size"""

    def __init__(self, players, tl, order, restrict1=None, restrict2=None):
        self.players, self.tl, self.order = players, tl, order
        self.r1, self.r2 = restrict1 or {}, restrict2 or {}
        self.depth = dp_depth(tl, order)

    def values(self, rew):
        v = [F(0)] * len(self.players)
        for s in self.order:
            row = self.tl[s]
            if not row:
                v[s] = F(0)
                continue
            if all(t == s for _, t in row):
                v[s] = inf if rew[s] > 0 else F(0)
                continue
            who = self.players[s]
            if who == PR:
                acc = F(0)
                for p, t in row:
                    if v[t] == inf:
                        acc = inf
                        break
                    acc += p * v[t]
                v[s] = acc if acc == inf else to_frac(rew[s]) + acc
            else:
                r = self.r1 if who == P1 else self.r2
                idxs = r.get(s, range(len(row)))
                vals = [v[row[i][1]] for i in idxs]
                best = max(vals) if who == P1 else min(vals)
                v[s] = best if best == inf else to_frac(rew[s]) + best
        return v

    def max_time(self, states):
        return F(max([self.depth[s] for s in states] or [0]))


def dp_chain_reach(n, succ, finals, order):
    fin = set(finals)
    v = [F(0)] * n
    for s in order:
        if s in fin:
            v[s] = F(1)
        elif succ[s] and not all(t == s for _, t in succ[s]):
            v[s] = sum((p * v[t] for p, t in succ[s]), F(0))
    return v
