"""Driving the generator's command line (roberta_generator.main) in a scratch directory."""
import os
import re
import shutil
import sys
import tempfile

from .repo import roberta_generator as G, stochastic_game_from_roborta_board as SG

NAME_RE = re.compile(r"^robot_(\d+)_w(\d+)_l(\d+)_r(\d+)_rb(\d+)_lb(\d+)_tb(\d+)_lt(\d+)(_force_down)?\.py$")
MANUAL_RE = re.compile(r"^manual_robot_w(\d+)_l(\d+)_r(\d+(?:\.\d+)?)_rb(\d+)_lb(\d+)_tb(\d+)_(force_down)?\.py$")


class Scratch:
    """a fresh directory with empty inputs/ and outputs/, used as the current directory"""

    def __enter__(self):
        self.tmp = tempfile.mkdtemp(prefix="crverif_gen_")
        os.mkdir(os.path.join(self.tmp, "inputs"))
        os.mkdir(os.path.join(self.tmp, "outputs"))
        self.cwd = os.getcwd()
        self.argv = sys.argv
        os.chdir(self.tmp)
        return self

    def __exit__(self, *a):
        sys.argv = self.argv
        os.chdir(self.cwd)
        shutil.rmtree(self.tmp, ignore_errors=True)

    def clear(self):
        for f in os.listdir("inputs"):
            os.remove(os.path.join("inputs", f))

    def files(self):
        return sorted(os.listdir("inputs"))


def cli_args(seed=0, width=3, length=3, rb=0.1, lb=0.1, tb=0.1, lt=0.3, max_reward=6, force_down=False):
    a = ["--seed=%r" % seed, "--width=%r" % width, "--length=%r" % length, "--prob_robot_break=%r" % rb,
         "--prob_light_break=%r" % lb, "--prob_tile_break=%r" % tb, "--prob_loose_tile=%r" % lt, "--max_reward=%r" % max_reward]
    if force_down:
        a.append("--force_down")
    return a


def run_main(**params):
    """call roberta_generator.main() with these parameters in the current (scratch) directory;
    returns (exception or None)"""
    sys.argv = ["roberta_generator.py"] + cli_args(**params)
    try:
        G.main()
        return None
    except SystemExit as e:
        return e
    except Exception as e:                                   # noqa: BLE001
        return e
