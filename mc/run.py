"""Driving the real solver on one game under the execution budget, and classifying the outcome."""
import copy

from . import budget
from .repo import tad, SNAP, NOSOL, debug_logging

THRESHOLD_BY_ATTRIBUTE = False     # other solver thresholds are given to the constructor (False) or assigned to Solver.threshold afterwards (True)
DEBUG_LOG = False      # set per shard by the sweep: every solve of the shard runs with the root logger at DEBUG (the tool's -l d)


class Outcome:
    __slots__ = ("kind", "result", "snap", "error")

    def __init__(self, kind, result=None, snap=None, error=None):
        self.kind = kind          # "ok" | "nosol" | "valueerror" | "exc" | "diverged"
        self.result = result      # the 8-tuple of solve()
        self.snap = snap          # transition lists at entry to reward solving
        self.error = error        # text of the exception

    def brief(self):
        if self.kind == "ok":
            return {"kind": "ok", "result": [list(x) if isinstance(x, (list, tuple)) else x for x in self.result]}
        return {"kind": self.kind, "error": self.error}


def solve(game, prune, cpu_s=budget.DEFAULT_CPU_S, max_lines=budget.DEFAULT_LINES, want_copy=True, confirm=True):
    """StochasticGame(**deepcopy(game), prune_states=prune).solve() under the two-stage budget."""

    def fn():
        g = copy.deepcopy(game) if want_copy else game
        SNAP.clear()
        if DEBUG_LOG:
            with debug_logging():
                return tad.StochasticGame(prune_states=prune, **g).solve()
        return tad.StochasticGame(prune_states=prune, **g).solve()

    st, val = budget.run_budgeted(fn, cpu_s, max_lines, confirm)
    if st == "ok":
        return Outcome("ok", val, SNAP.get("next"))
    if st == "timeout":
        return Outcome("timeout", error="no result within %.2f s of CPU time (not judged)" % val)
    if st == "diverged":
        return Outcome("diverged", error="no result within %d executed lines" % val)
    e = val
    if isinstance(e, ValueError):
        if str(e) == NOSOL:
            return Outcome("nosol", error=str(e))
        return Outcome("valueerror", error=str(e))
    return Outcome("exc", error="%s: %s" % (type(e).__name__, e))


def solve_reach_seam(game, prune, threshold=None, cpu_s=budget.DEFAULT_CPU_S, max_lines=budget.DEFAULT_LINES):
    """The component seam check_game -> init_states -> Solver.solve_reachability (one of C01's observation
    points).  Used for non-stopping structures (solve() need not return there) and for solver thresholds
    other than the one solve() hard-wires.  Returns Outcome whose result is (probabilities, strategies)."""

    def fn():
        if DEBUG_LOG:
            with debug_logging():
                return seam()
        return seam()

    def seam():
        g = copy.deepcopy(game)
        sg = tad.StochasticGame(prune_states=prune, **g)
        sg.check_game()
        state_list = sg.init_states()
        if threshold is None:
            solver = tad.Solver(state_list)
        elif THRESHOLD_BY_ATTRIBUTE:
            solver = tad.Solver(state_list)
            solver.threshold = threshold            # the public attribute, set between construction and solving
        else:
            solver = tad.Solver(state_list, threshold=threshold)
        strategies, _ = solver.solve_reachability(sg.transition_list, sg.final_states, prune)
        return [s.reach_probability for s in state_list], strategies

    st, val = budget.run_budgeted(fn, cpu_s, max_lines)
    if st == "ok":
        return Outcome("ok", val)
    if st == "diverged":
        return Outcome("diverged", error="no result within %d executed lines" % val)
    e = val
    if isinstance(e, ValueError):
        if str(e) == NOSOL:
            return Outcome("nosol", error=str(e))
        return Outcome("valueerror", error=str(e))
    return Outcome("exc", error="%s: %s" % (type(e).__name__, e))


def well_shaped(result, players):
    """complete 8-tuple: lists of length n, strategy lists for player states, None for probabilistic, finite floats"""
    import math
    if not isinstance(result, tuple) or len(result) != 8:
        return "result is not an 8-tuple"
    n = len(players)
    fs, rs, rew, pr, it1, it2, pmr, rmr = result
    for name, v in (("final_strategies", fs), ("reachability_strategies", rs), ("rewards", rew),
                    ("probabilities", pr), ("prob_min_rew", pmr), ("rew_min_reach", rmr)):
        if not isinstance(v, list) or len(v) != n:
            return "%s is not a list of length %d" % (name, n)
    for name, v in (("rewards", rew), ("probabilities", pr), ("prob_min_rew", pmr), ("rew_min_reach", rmr)):
        for x in v:
            if isinstance(x, bool) or not isinstance(x, (int, float)) or not math.isfinite(x):
                return "%s contains a non-finite or non-numeric entry %r" % (name, x)
    for name, v in (("final_strategies", fs), ("reachability_strategies", rs)):
        for s, x in enumerate(v):
            if players[s] == "Probabilistic":
                if x is not None:
                    return "%s[%d] should be None for a probabilistic state" % (name, s)
            elif not isinstance(x, list) or not all(isinstance(a, str) for a in x):
                return "%s[%d] is not a list of action names" % (name, s)
    if not isinstance(it1, int) or not isinstance(it2, int):
        return "iteration counts are not integers"
    return None
