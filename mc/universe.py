"""Finite, indexable game universes (alphabets and bounds of DESIGN 1.3).

A *structure* is (players, transition lists, final states); rewards are enumerated inside a structure.
Every universe is an explicit product, so its size is known, any index can be decoded directly and the
product can be sharded over processes without materialising it.
"""
import itertools
from fractions import Fraction

P1, P2, PR = "Player 1", "Player 2", "Probabilistic"
# action names are chosen so that some are substrings / prefixes of others ("a" in "ab", "b" in "ab", "a" in "ba"):
# name-keyed logic that confuses membership with containment then shows up in every universe
ACTIONS = ("b", "ab", "a", "ba", "aa")      # not in alphabetical order from the second action on; names contained in one another

VECT_DYADIC = {1: [(1,)], 2: [(0.5, 0.5), (0.25, 0.75)]}
VECT_3WAY = {1: [(1,)], 2: [(0.5, 0.5), (0.25, 0.75)], 3: [(0.25, 0.25, 0.5), (0.5, 0.25, 0.25)]}
VECT_HALF = {1: [(1,)], 2: [(0.5, 0.5)]}


def state_options(targets, max_deg, vectors, kinds=(P1, P2, PR), unordered=False):
    """All (player, row) a state can have: 1..max_deg transitions to any of `targets`, parallel edges and
    self-loops allowed, every order (unless unordered), simplest first."""
    opts = []
    for kind in kinds:
        for d in range(1, max_deg + 1):
            if unordered:
                tgs = itertools.combinations(targets, d)
            else:
                tgs = itertools.product(targets, repeat=d)
            for tg in tgs:
                if kind == PR:
                    for vec in vectors.get(d, []):
                        opts.append((kind, tuple((vec[i], t) for i, t in enumerate(tg))))
                else:
                    opts.append((kind, tuple((ACTIONS[i], t) for i, t in enumerate(tg))))
    return opts


class Product:
    """mixed-radix product of option lists"""

    def __init__(self, lists):
        self.lists = lists
        self.size = 1
        for l in lists:
            self.size *= len(l)

    def decode(self, idx):
        out = []
        for l in reversed(self.lists):
            idx, r = divmod(idx, len(l))
            out.append(l[r])
        out.reverse()
        return out

    def iter_range(self, lo, hi):
        """fast iteration over indices lo..hi-1 (odometer, no per-item divmod)"""
        if lo >= hi:
            return
        lists = self.lists
        k = len(lists)
        digits = []
        idx = lo
        for l in reversed(lists):
            idx, r = divmod(idx, len(l))
            digits.append(r)
        digits.reverse()
        cur = [lists[i][digits[i]] for i in range(k)]
        for _ in range(hi - lo):
            yield cur
            cur = list(cur)
            i = k - 1
            while i >= 0:
                digits[i] += 1
                if digits[i] < len(lists[i]):
                    cur[i] = lists[i][digits[i]]
                    break
                digits[i] = 0
                cur[i] = lists[i][0]
                i -= 1


def nonempty_subsets(items):
    out = []
    for r in range(1, len(items) + 1):
        out.extend(list(c) for c in itertools.combinations(items, r))
    return out


class Universe:
    """inner states chosen from per-state option lists, plus fixed tail states (sinks)."""

    def __init__(self, name, n_inner, opts, tail, finals_options, description):
        self.name = name
        self.n_inner = n_inner
        self.opts = opts
        self.tail = tail                      # list of (player, row) appended after the inner states
        self.finals_options = finals_options  # list of final-state lists
        self.description = description
        self.product = Product([opts] * n_inner + [finals_options])
        self.size = self.product.size

    def build(self, combo):
        states = list(combo[:-1]) + self.tail
        players = [p for p, _ in states]
        tl = [list(row) for _, row in states]
        return players, tl, list(combo[-1])

    def structures(self, lo=0, hi=None, stride=1, offset=0):
        hi = self.size if hi is None else hi
        if stride == 1:
            for combo in self.product.iter_range(lo, hi):
                yield self.build(combo)
        else:
            i = lo + ((offset - lo) % stride)
            while i < hi:
                yield self.build(self.product.decode(i))
                i += stride

    def structure_at(self, idx):
        return self.build(self.product.decode(idx))


def U_T3():
    opts = state_options(range(3), 2, VECT_DYADIC)
    return Universe("U-T3", 3, opts, [], nonempty_subsets([0, 1, 2]),
                    "all games on 3 states, each P1/P2 with 1-2 actions or probabilistic with (1),(1/2,1/2),(1/4,3/4), "
                    "any successors (self-loops, parallel edges), every non-empty final set, every numbering")


def U_T4r():
    opts = state_options(range(4), 2, VECT_HALF, unordered=True)
    return Universe("U-T4r", 4, opts, [], nonempty_subsets([0, 1, 2, 3]),
                    "all games on 4 states with out-degree <= 2, unordered successors without parallel edges, vector (1/2,1/2) only, "
                    "every non-empty final set (several, non-absorbing, player-owned finals), every numbering")


def _sinks(n_inner):
    lose, win = n_inner, n_inner + 1
    return [(PR, ((1, lose),)), (PR, ((1, win),))], [[win]]


def U_S2(max_deg=3):
    tail, finals = _sinks(2)
    opts = state_options(range(4), max_deg, VECT_3WAY)
    return Universe("U-S2" if max_deg == 3 else "U-S2d%d" % max_deg, 2, opts, tail, finals,
                    "2 inner states + absorbing lose + absorbing final win; inner states P1/P2/probabilistic with "
                    "out-degree <= %d, vectors (1),(1/2,1/2),(1/4,3/4),(1/4,1/4,1/2),(1/2,1/4,1/4)" % max_deg)


def U_S3():
    tail, finals = _sinks(3)
    opts = state_options(range(5), 2, VECT_DYADIC)
    return Universe("U-S3", 3, opts, tail, finals,
                    "3 inner states + 2 sinks, out-degree <= 2, vectors (1),(1/2,1/2),(1/4,3/4)")


def U_S4r():
    tail, finals = _sinks(4)
    opts = state_options(range(6), 2, VECT_HALF, unordered=True)
    return Universe("U-S4r", 4, opts, tail, finals,
                    "4 inner states + 2 sinks, out-degree <= 2, vector (1/2,1/2) only, successors unordered, no parallel edges")


def U_S5r():
    tail, finals = _sinks(5)
    opts = state_options(range(7), 2, VECT_HALF, unordered=True)
    return Universe("U-S5r", 5, opts, tail, finals,
                    "5 inner states + 2 sinks (7 states), out-degree <= 2, vector (1/2,1/2) only, successors unordered, no parallel edges; "
                    "explored as an arithmetic progression of indices (prime stride), which varies every state's row")


def U_S6r():
    tail, finals = _sinks(6)
    opts = state_options(range(8), 2, VECT_HALF, unordered=True)
    return Universe("U-S6r", 6, opts, tail, finals,
                    "6 inner states + 2 sinks (8 states), out-degree <= 2, vector (1/2,1/2) only, successors unordered, no parallel edges; "
                    "explored as an arithmetic progression of indices (prime stride)")


def reward_vectors(n_inner, n_total, values):
    """all reward vectors over `values` on the inner states, 0 on the sinks"""
    for r in itertools.product(values, repeat=n_inner):
        yield list(r) + [0] * (n_total - n_inner)


# ------------------------------------------------------------------------------------------------ U-F

VECT_F = {1: [(1,)],
          2: [(0.5, 0.5), (0.25, 0.75)],
          3: [(0.25, 0.25, 0.5), (0.5, 0.25, 0.25), (0.2, 0.3, 0.5)],
          4: [(0.25, 0.25, 0.25, 0.25), (0.125, 0.125, 0.25, 0.5), (0.1, 0.2, 0.3, 0.4)],
          5: [(0.125, 0.125, 0.25, 0.25, 0.25), (0.1, 0.1, 0.2, 0.3, 0.3)]}

F_PLACEMENTS = ("direct", "behindP2", "behindPR", "behindP1")
F_D2KINDS = ("sink", "rewarded")


def U_F_cases(max_deg):
    """descriptors (placement, d2kind, kind, targets, vector) of the focus-state universe, simplest first"""
    out = []
    for d in range(1, max_deg + 1):
        for tg in itertools.product(range(6), repeat=d):     # 0 = self, 1 = dead1, 2 = dead2, 3 = live1, 4 = live2, 5 = win
            for kind in (PR, P1):
                for vec in (VECT_F[d] if kind == PR else [None]):
                    for placement in F_PLACEMENTS:
                        for d2kind in F_D2KINDS:
                            out.append((placement, d2kind, kind, tg, vec))
    return out


def U_F_build(case, focus_reward=1):
    """One focus state (P1 or probabilistic) with successors drawn from
    {self, dead1 (lose sink), dead2 (sink or rewarded state falling into lose), live1 (->win),
     live2 (1/2 win, 1/2 dead1, reward 1), win} in the given sequence; the focus state is state 0 or sits
    behind a P2 / probabilistic / P1 entry state.  Returns a game dict."""
    placement, d2kind, kind, tg, vec = case
    f = 0 if placement == "direct" else 6
    targets = [f if t == 0 else t for t in tg]
    if kind == PR:
        row = [(vec[i], t) for i, t in enumerate(targets)]
    else:
        row = [(ACTIONS[i], t) for i, t in enumerate(targets)]
    fixed = {1: (PR, 0, [(1, 1)]),
             2: (PR, 0, [(1, 2)]) if d2kind == "sink" else (PR, 1, [(0.5, 1), (0.5, 2)]),
             3: (PR, 0, [(1, 5)]),
             4: (PR, 1, [(0.5, 5), (0.5, 1)]),
             5: (PR, 0, [(1, 5)])}
    if placement == "direct":
        states = {0: (kind, focus_reward, row)}
    else:
        entry = {"behindP2": (P2, 0, [("x", 6), ("y", 3)]),
                 "behindPR": (PR, 0, [(0.5, 6), (0.5, 3)]),
                 "behindP1": (P1, 0, [("x", 6), ("y", 1)])}[placement]
        states = {0: entry, 6: (kind, focus_reward, row)}
    states.update(fixed)
    n = len(states)
    return dict(rewards=[states[i][1] for i in range(n)],
                players=[states[i][0] for i in range(n)],
                transition_list=[list(states[i][2]) for i in range(n)],
                final_states=[5]), f


# ------------------------------------------------------------------------------------------------ U-D

def U_D_games():
    """Acyclic 'decimal tie' games: a player state at 0 chooses among 2-4 probabilistic successors whose
    exact values are equal (or clearly different) but are obtained through different floating-point sums.
    Layout: 0 = chooser (P1 or P2), 1..k = probabilistic candidates, then mid states, lose, win."""
    # candidate rows over targets: 'W' win, 'L' lose, 'M' mid (value 1/2: (0.5 W, 0.5 L)), 'N' mid2 (value 0.3: (0.3 W, 0.7 L))
    cand = {
        "0.3a": [(0.1, "W"), (0.2, "W"), (0.7, "L")],
        "0.3b": [(0.3, "W"), (0.7, "L")],
        "0.3c": [(0.6, "M"), (0.4, "L")],
        "0.3d": [(1, "N")],
        "0.3e": [(0.7, "L"), (0.2, "W"), (0.1, "W")],
        "0.3f": [(0.15, "W"), (0.15, "W"), (0.7, "L")],
        "0.6a": [(0.6, "W"), (0.4, "L")],
        "0.6b": [(0.1, "W"), (0.2, "W"), (0.3, "W"), (0.4, "L")],
        "0.6c": [(0.2, "W"), (0.8, "M")],
        "0.6d": [(0.3, "W"), (0.3, "W"), (0.4, "L")],
        "0.5a": [(1, "M")],
        "0.5b": [(0.5, "W"), (0.5, "L")],
        "0.5c": [(0.35, "W"), (0.3, "M"), (0.35, "L")],
        "0.7a": [(0.7, "W"), (0.3, "L")],
        "0.7b": [(0.4, "W"), (0.6, "M")],
        "0.7c": [(0.1, "W"), (0.6, "W"), (0.3, "L")],
        "0.5n11": [(0.5 + 2 ** -11, "W"), (0.5 - 2 ** -11, "L")],      # 0.5 + 4.9e-4: distinct from 1/2 by more than the tolerance
        "0.5n14": [(0.5 + 2 ** -14, "W"), (0.5 - 2 ** -14, "L")],      # 0.5 + 6.1e-5
        "0.5n17": [(0.5 + 2 ** -17, "W"), (0.5 - 2 ** -17, "L")],      # 0.5 + 7.6e-6
        "0.5n45": [(0.5000045, "W"), (0.4999955, "L")],                # 0.5 + 4.5e-6: just outside tolerance + 1e-6, same 5-digit rounding as 1/2
        "0a": [(1, "L")],
        "1a": [(1, "W")],
        "1b": [(0.3, "W"), (0.7, "W")],
    }
    names = sorted(cand)
    sub3 = ["0.3a", "0.3b", "0.3c", "0.3d", "0.6a", "0.6b", "0.6c", "0.5a", "0.5c", "0a", "1b"]
    sub4 = ["0.3a", "0.3c", "0.3e", "0.6b", "0.6d", "0.7b", "0.7c"]
    games = []
    for k in (2, 3, 4):
        pool = {2: names, 3: sub3, 4: sub4}[k]
        for combo in itertools.product(pool, repeat=k):
            if k >= 3 and len(set(c[:3] for c in combo)) > 2:
                continue                       # keep the product tractable: at most two distinct values compete
            if k >= 3 and len(set(combo)) < 2:
                continue
            for chooser in (P1, P2):
                for crew in ((0,) * k, tuple(range(k))):
                    M, N = k + 1, k + 2
                    L, W = k + 3, k + 4
                    sym = {"W": W, "L": L, "M": M, "N": N}
                    players = [chooser] + [PR] * k + [PR, PR, PR, PR]
                    tl = [[(ACTIONS[i], 1 + i) for i in range(k)]]
                    for c in combo:
                        tl.append([(p, sym[t]) for p, t in cand[c]])
                    tl.append([(0.5, W), (0.5, L)])
                    tl.append([(0.3, W), (0.7, L)])
                    tl.append([(1, L)])
                    tl.append([(1, W)])
                    rewards = [1] + list(crew) + [1, 2, 0, 0]
                    games.append(dict(rewards=rewards, players=players, transition_list=tl, final_states=[W]))
    return games


def game_of(players, tl, finals, rewards):
    return dict(rewards=list(rewards), players=list(players), transition_list=[list(r) for r in tl],
                final_states=list(finals))


# ------------------------------------------------------------------------- families added after the second seeded round

def _renumber(game, perm):
    """perm[s] = new index of old state s (perm[0] == 0)"""
    n = len(game["players"])
    players, rewards, tl = [None] * n, [None] * n, [None] * n
    for s in range(n):
        players[perm[s]] = game["players"][s]
        rewards[perm[s]] = game["rewards"][s]
        tl[perm[s]] = [(lab, perm[t]) for lab, t in game["transition_list"][s]]
    return dict(rewards=rewards, players=players, transition_list=tl, final_states=[perm[f] for f in game["final_states"]])


def _reverse_perm(n):
    return [0] + list(range(n - 1, 0, -1))


def U_E_games():
    """'epsilon' games: reachability values in (0, 1e-6] and just above.  A focus state (probabilistic or Player 1) with
    1-3 successors from {T (wins with tiny probability t), L (lose), V (wins surely)}, as state 0 or behind an entry
    state, numbered ascending and descending (the sweep order decides whether a tiny value is seen before the loop stops)."""
    games = []
    for t in (5e-10, 2e-7, 4e-7, 9e-7, 3e-6, 0.9999999, 0.9999996):      # the last two: values within 1e-6 BELOW 1 (a value may never be reported above the true one)
        for d in (1, 2, 3):
            for tg in itertools.product("TLV", repeat=d):
                for kind in (PR, P1):
                    for vec in (VECT_F[d] if kind == PR else [None]):
                        for placement in F_PLACEMENTS:
                            # states: [entry] focus T V L W
                            names = (["entry"] if placement != "direct" else []) + ["focus", "T", "V", "L", "W"]
                            idx = {nme: i for i, nme in enumerate(names)}
                            if kind == PR:
                                row = [(vec[i], idx[x]) for i, x in enumerate(tg)]
                            else:
                                row = [(ACTIONS[i], idx[x]) for i, x in enumerate(tg)]
                            st = {"focus": (kind, 1, row), "T": (PR, 2, [(t, idx["W"]), (1 - t, idx["L"])]),
                                  "V": (PR, 0, [(1, idx["W"])]), "L": (PR, 0, [(1, idx["L"])]), "W": (PR, 0, [(1, idx["W"])])}
                            if placement == "behindP2":
                                st["entry"] = (P2, 0, [("x", idx["focus"]), ("y", idx["V"])])
                            elif placement == "behindPR":
                                st["entry"] = (PR, 0, [(0.5, idx["focus"]), (0.5, idx["V"])])
                            elif placement == "behindP1":
                                st["entry"] = (P1, 0, [("x", idx["focus"]), ("y", idx["L"])])
                            g = dict(rewards=[st[n_][1] for n_ in names], players=[st[n_][0] for n_ in names],
                                     transition_list=[list(st[n_][2]) for n_ in names], final_states=[idx["W"]])
                            games.append(g)
                            games.append(_renumber(g, _reverse_perm(len(names))))
    return games


def U_C_games():
    """chains: s_0 .. s_4, each either continues to the next chain state (the last one to win) or takes a shortcut X in
    {win, mid (1/2 win)}; owners P1 / P2 / probabilistic (1/2, 1/2); numbered ascending and descending.  Values travel
    several sweeps along the chain."""
    games = []
    K = 5
    for combo in itertools.product(range(6), repeat=K):
        # states: s_0..s_4, M, L, W
        M, L, W = K, K + 1, K + 2
        players, tl = [], []
        for i, c in enumerate(combo):
            kind = (PR, P1, P2)[c % 3]
            X = (W, M)[c // 3]
            nxt = i + 1 if i + 1 < K else W
            if kind == PR:
                tl.append([(0.5, nxt), (0.5, X)])
            else:
                tl.append([(ACTIONS[0], nxt), (ACTIONS[1], X)])
            players.append(kind)
        players += [PR, PR, PR]
        tl += [[(0.5, W), (0.5, L)], [(1, L)], [(1, W)]]
        g = dict(rewards=[1] * K + [2, 0, 0], players=players, transition_list=tl, final_states=[W])
        games.append(g)
        games.append(_renumber(g, _reverse_perm(K + 3)))
    return games


def U_L_games():
    """large rewards and slowly converging loops: a chooser between a state that collects r per visit on a self-loop with
    stay probability q and a state with a single large reward; the two totals differ by 5 (far above the tolerance, tiny
    relative to the values)."""
    games = []
    for q in (0.9, 0.99):
        for r in (100, 1000, 2500.5):
            total = r / (1 - q)
            for delta in (-5, 5):
                for chooser in (P1, P2):
                    for order in (0, 1):
                        A = (PR, r, [(q, 1 + order), (1 - q, 3)])       # self-loop; index fixed below
                        B = (PR, round(total + delta, 6), [(1, 3)])
                        cands = [A, B] if order == 0 else [B, A]
                        # states: 0 chooser, 1, 2 candidates, 3 W
                        tl = [[(ACTIONS[0], 1), (ACTIONS[1], 2)]]
                        for k, c in enumerate(cands):
                            row = [(p, (1 + k) if t != 3 else 3) for p, t in c[2]]
                            tl.append(row)
                        tl.append([(1, 3)])
                        games.append(dict(rewards=[0, cands[0][1], cands[1][1], 0], players=[chooser, PR, PR, PR],
                                          transition_list=tl, final_states=[3]))
    return games


def U_R_games():
    """reward ties through different floating-point sums: every candidate reaches the goal surely; expected rewards are
    0.3 (as 0.1+0.2, 0.3, 0.2+0.1, 0.15+0.15) or 0.6 (0.6, 0.1+0.2+0.3)."""
    cand = {"A": [(0.1, "R"), (0.2, "R"), (0.7, "Z")], "B": [(0.3, "R"), (0.7, "Z")], "C": [(0.7, "Z"), (0.2, "R"), (0.1, "R")],
            "D": [(0.15, "R"), (0.15, "R"), (0.7, "Z")], "E": [(0.6, "R"), (0.4, "Z")], "F": [(0.1, "R"), (0.2, "R"), (0.3, "R"), (0.4, "Z")]}
    games = []
    for k in (2, 3):
        for combo in itertools.product(sorted(cand), repeat=k):
            for chooser in (P1, P2):
                R, Z, W = k + 1, k + 2, k + 3
                sym = {"R": R, "Z": Z}
                tl = [[(ACTIONS[i], 1 + i) for i in range(k)]]
                for c in combo:
                    tl.append([(p, sym[t]) for p, t in cand[c]])
                tl += [[(1, W)], [(1, W)], [(1, W)]]
                games.append(dict(rewards=[1] + [0] * k + [1, 0, 0], players=[chooser] + [PR] * (k + 3),
                                  transition_list=tl, final_states=[W]))
    return games


def U_P2_games():
    """two levels of choice: s0 over {X, Y}, X over {U, V}; U, V, Y win with probability 1/4, 1/2 or 3/4 and carry rewards,
    so reachability-optimal and reward-optimal actions differ at both levels in every combination."""
    games = []
    probs = (0.25, 0.5, 0.75)
    reward_sets = [list(r) for r in itertools.product((0, 1, 2), repeat=4)]
    near = [[rx, 3.0000004, 3.0000012, ry] for rx in (0, 1) for ry in (0, 3)] + [[rx, 3.0000012, 3.0000004, ry] for rx in (0, 1) for ry in (0, 3)]
    for o0 in (P1, P2):
        for oX in (P1, P2):
            for pU, pV, pY in itertools.product(probs, repeat=3):
                for rX, rU, rV, rY in reward_sets + near:
                    # states: 0 s0, 1 X, 2 U, 3 V, 4 Y, 5 L, 6 W
                    tl = [[(ACTIONS[0], 1), (ACTIONS[1], 4)], [(ACTIONS[0], 2), (ACTIONS[1], 3)],
                          [(pU, 6), (1 - pU, 5)], [(pV, 6), (1 - pV, 5)], [(pY, 6), (1 - pY, 5)], [(1, 5)], [(1, 6)]]
                    games.append(dict(rewards=[0, rX, rU, rV, rY, 0, 0], players=[o0, oX, PR, PR, PR, PR, PR],
                                      transition_list=tl, final_states=[6]))
    return games


def U_N_games():
    """near chains: three candidates whose reach values are 0.5, 0.5000004, 0.5000008 (pairwise closer than the tolerance,
    so no exact-set claim applies) in every order with repetitions: the result must not depend on the order."""
    vals = (0.5, 0.5000004, 0.5000008)
    games = []
    for combo in itertools.product(vals, repeat=3):
        for chooser in (P1, P2):
            L, W = 4, 5
            tl = [[(ACTIONS[i], 1 + i) for i in range(3)]]
            for v in combo:
                tl.append([(v, W), (round(1 - v, 7), L)])
            tl += [[(1, L)], [(1, W)]]
            games.append(dict(rewards=[0, 1, 5, 50, 0, 0], players=[chooser, PR, PR, PR, PR, PR], transition_list=tl, final_states=[W]))
    # the reward analogue: three candidates that all reach the goal surely and are worth 1.0, 1.0000008, 1.0000016 (neighbours closer than
    # 1e-6, the ends further apart; after rounding to 6 digits all three differ), in every order with repetitions
    rvals = (1.0, 1.0000008, 1.0000016)
    for combo in itertools.product(rvals, repeat=3):
        for chooser in (P1, P2):
            tl = [[(ACTIONS[i], 1 + i) for i in range(3)], [(1, 4)], [(1, 4)], [(1, 4)], [(1, 4)]]
            games.append(dict(rewards=[0] + list(combo) + [0], players=[chooser, PR, PR, PR, PR], transition_list=tl, final_states=[4]))
    return games


def U_W_games():
    """slowly mixing stopping games: a probabilistic self-loop with stay probability q very close to 1 on the way to the goal
    (tens of thousands to hundreds of thousands of sweeps), alone, behind a chain state, or as one of two options of a player;
    with and without a reward on the looping state"""
    games = []
    for q, r in ((0.999, 0), (0.999, 1), (0.9999, 0), (0.9999, 1), (0.99999, 0)):
        esc = round(1 - q, 7)
        # 0: loop state; 1: L; 2: W
        games.append(dict(rewards=[r, 0, 0], players=[PR, PR, PR], transition_list=[[(q, 0), (esc, 2)], [(1, 1)], [(1, 2)]], final_states=[2]))
        # half of the escapes lose
        games.append(dict(rewards=[r, 0, 0], players=[PR, PR, PR],
                          transition_list=[[(q, 0), (esc / 2, 2), (esc / 2, 1)], [(1, 1)], [(1, 2)]], final_states=[2]))
        # a player chooses between the slow loop (value 1 in the limit) and a coin flip
        for who in (P1, P2):
            games.append(dict(rewards=[0, r, 0, 0, 0], players=[who, PR, PR, PR, PR],
                              transition_list=[[(ACTIONS[0], 1), (ACTIONS[1], 2)], [(q, 1), (esc, 4)], [(0.5, 4), (0.5, 3)], [(1, 3)], [(1, 4)]],
                              final_states=[4]))
    return games


def U_Z_games():
    """value 0 by the opponent's choice, not by the graph: a probabilistic focus state whose successors all have value 0 although
    some of them (Player-2 states that may go to win or to lose) have a path to the goal; decimal probability vectors whose float
    sum is not exactly 1 in some orders; the focus is the initial state (no solution when pruning) or sits behind a fair coin,
    optionally with a rewarded self-loop"""
    games = []
    vectors = [(0.7, 0.2, 0.1), (0.1, 0.2, 0.7), (0.3, 0.3, 0.4), (0.6, 0.3, 0.1), (0.5, 0.5), (0.9, 0.1), (0.1, 0.9), (1,)]
    for vec in vectors:
        for tg in itertools.product("ABLS", repeat=len(vec)):        # A: P2 (win | lose), B: P2 (lose | win), L: lose, S: self
            if "A" not in tg and "B" not in tg:
                continue
            for placement in ("direct", "behindPR"):
                for rf in (0, 1):
                    names = (["entry"] if placement != "direct" else []) + ["focus", "A", "B", "V", "L", "W"]
                    idx = {nme: i for i, nme in enumerate(names)}
                    sym = {"A": idx["A"], "B": idx["B"], "L": idx["L"], "S": idx["focus"]}
                    st = {"focus": (PR, rf, [(vec[i], sym[x]) for i, x in enumerate(tg)]),
                          "A": (P2, 1, [(ACTIONS[0], idx["W"]), (ACTIONS[1], idx["L"])]),
                          "B": (P2, 0, [(ACTIONS[0], idx["L"]), (ACTIONS[1], idx["W"])]),
                          "V": (PR, 0, [(1, idx["W"])]), "L": (PR, 0, [(1, idx["L"])]), "W": (PR, 0, [(1, idx["W"])])}
                    if placement == "behindPR":
                        st["entry"] = (PR, 0, [(0.5, idx["focus"]), (0.5, idx["V"])])
                    games.append(dict(rewards=[st[n_][1] for n_ in names], players=[st[n_][0] for n_ in names],
                                      transition_list=[list(st[n_][2]) for n_ in names], final_states=[idx["W"]]))
    return games


def U_G_games():
    """larger games with few choices: a corridor of 8 probabilistic states (1/2 forward, 1/4 back, 1/4 into a side exit that
    is lose / win / the start, by pattern) with up to three player states inserted at fixed slots, each offering 'go on' or
    a shortcut (win, lose, start, or a fair coin); 11-16 states, numbered ascending and descending.  Values need many
    sweeps to travel and several distant decisions interact."""
    games = []
    K = 8
    slot_opts = [None] + [(who, S) for who in (P1, P2) for S in ("W", "L", "c0", "M")]
    patterns = ["LLLLLLLL", "LWLWLWLW", "0L0L0L0L", "LLLL0000"]
    for pat in patterns:
        for slots in itertools.product(slot_opts, repeat=3):
            names = []
            for i in range(K):
                names.append("c%d" % i)
                if i in (1, 3, 5) and slots[(i - 1) // 2] is not None:
                    names.append("p%d" % i)
            names += ["M", "L", "W"]
            idx = {nme: k for k, nme in enumerate(names)}

            def after(i):
                """where 'forward' from corridor state i leads"""
                if "p%d" % i in idx:
                    return idx["p%d" % i]
                return idx["c%d" % (i + 1)] if i + 1 < K else idx["W"]

            st = {}
            for i in range(K):
                side = {"L": idx["L"], "W": idx["W"], "0": idx["c0"]}[pat[i]]
                st["c%d" % i] = (PR, 1 if i % 2 == 0 else 0, [(0.5, after(i)), (0.25, idx["c%d" % max(i - 1, 0)]), (0.25, side)])
            for i in (1, 3, 5):
                opt = slots[(i - 1) // 2]
                if opt is not None:
                    who, S = opt
                    tgt = {"W": idx["W"], "L": idx["L"], "c0": idx["c0"], "M": idx["M"]}[S]
                    st["p%d" % i] = (who, 1, [(ACTIONS[0], idx["c%d" % (i + 1)]), (ACTIONS[1], tgt)])
            st["M"] = (PR, 2, [(0.5, idx["W"]), (0.5, idx["L"])])
            st["L"] = (PR, 0, [(1, idx["L"])])
            st["W"] = (PR, 0, [(1, idx["W"])])
            g = dict(rewards=[st[n_][1] for n_ in names], players=[st[n_][0] for n_ in names],
                     transition_list=[list(st[n_][2]) for n_ in names], final_states=[idx["W"]])
            games.append(g)
            games.append(_renumber(g, _reverse_perm(len(names))))
    return games


def _large_acyclic(n, a, owners, numbering):
    """one layered acyclic game on n states (logical order = topological order; physical numbering by `numbering`)"""
    L, W = n - 2, n - 1
    players, tl, rewards = [], [], []
    for i in range(n - 2):
        d = 1 + (i + a) % 3
        raw = [i + 1 + (a * i) % 3, i + 2 + (a + i) % 5, i + 4 + (i * i + a) % 7][:d]
        tg = []
        for k, t in enumerate(raw):
            if t >= n - 2:
                t = W if (t + a + k) % 2 == 0 else L
            tg.append(t)
        if owners == 0:
            who = (P1, P2, PR)[i % 3]
        elif owners == 1:
            who = (P1 if i % 8 == 0 else P2) if i % 4 == 0 else PR
        else:
            who = PR if i % 5 in (1, 2, 3) else (P1 if i % 5 == 0 else P2)
        if who == PR:
            vec = {1: [(1,)], 2: [(0.5, 0.5), (0.25, 0.75), (0.3, 0.7)], 3: [(0.25, 0.25, 0.5), (0.2, 0.3, 0.5)]}[d]
            vec = vec[i % len(vec)]
            tl.append([(vec[k], t) for k, t in enumerate(tg)])
        else:
            tl.append([(ACTIONS[k], t) for k, t in enumerate(tg)])
        players.append(who)
        rewards.append((i + a) % 3)
    players += [PR, PR]
    tl += [[(1, L)], [(1, W)]]
    rewards += [0, 0]
    g = dict(rewards=rewards, players=players, transition_list=tl, final_states=[W])
    if numbering == "desc":
        return _renumber(g, _reverse_perm(n))
    if numbering == "head":
        # the two absorbing states are numbered 1 and 2, everything else moves up (states that are never swept come first)
        perm = [0] * n
        perm[n - 2], perm[n - 1] = 1, 2
        for i in range(1, n - 2):
            perm[i] = i + 2
        return _renumber(g, perm)
    if numbering == "inter":
        rest = list(range(1, n))
        order = rest[1::2] + rest[0::2]            # physical positions 1.. are given to the odd, then the even logical states
        perm = [0] * n
        for pos, s in enumerate(order):
            perm[s] = pos + 1
        return _renumber(g, perm)
    return g


U_A_SIZES_QUICK = (12, 17, 33, 51, 65, 100, 130, 300, 600)
U_A_SIZES_ALL = (12, 13, 17, 33, 34, 51, 65, 66, 100, 129, 130, 200, 258, 300, 513, 600, 1000)


def U_A_games(sizes=U_A_SIZES_ALL):
    """large acyclic games (12 to 513 states, many player states): exact values by backward induction, so the solver's
    results can be checked exactly far beyond the sizes the strategy-enumeration oracle reaches"""
    games = []
    for n in sizes:
        for a in range(6):
            for owners in range(3):
                for numbering in ("asc", "desc", "inter", "head"):
                    games.append(_large_acyclic(n, a, owners, numbering))
    return games


def U_K_games():
    """index-pair games: 16 states in which the transitions 1->12, 1->13, 11->2, 11->3 and the successor lists [1, 12] and
    [11, 2] all occur (indices whose decimal strings concatenate to the same text: "1"+"12" == "11"+"2"), with every
    assignment of four different win probabilities and rewards to the leaves 2, 3, 12, 13 and both owners for each pair of
    player states.  Anything keyed by unseparated index strings mixes these states up."""
    games = []
    L, W = 14, 15
    for perm in itertools.permutations((0.25, 0.5, 0.75, 0.9)):
        for rperm in ((0, 1, 2, 3), (3, 2, 1, 0), (1, 3, 0, 2)):
            for K in (P1, P2):
                for K2 in (P1, P2):
                    leaf = dict(zip((2, 3, 12, 13), perm))
                    lrew = dict(zip((2, 3, 12, 13), rperm))
                    st = {0: (PR, 0, [(0.25, 4), (0.25, 5), (0.25, 1), (0.25, 11)]),
                          1: (K, 1, [(ACTIONS[0], 12), (ACTIONS[1], 13)]),
                          11: (K, 0, [(ACTIONS[0], 2), (ACTIONS[1], 3)]),
                          4: (K2, 0, [(ACTIONS[0], 1), (ACTIONS[1], 12)]),
                          5: (K2, 1, [(ACTIONS[0], 11), (ACTIONS[1], 2)]),
                          L: (PR, 0, [(1, L)]), W: (PR, 0, [(1, W)])}
                    for s_, p in leaf.items():
                        st[s_] = (PR, lrew[s_], [(p, W), (round(1 - p, 2), L)])
                    for s_ in (6, 7, 8, 9, 10):
                        st[s_] = (PR, 0, [(1, W)])
                    games.append(dict(rewards=[st[i][1] for i in range(16)], players=[st[i][0] for i in range(16)],
                                      transition_list=[list(st[i][2]) for i in range(16)], final_states=[W]))
    # action names that begin with a digit: state 1 with action "2x" and state 12 with action "x" (or state 1 / "1a" and state 11 / "a")
    # spell the same text when a state number and an action name are glued together
    for c, n1, nc in ((12, "2x", "x"), (11, "1a", "a")):
        leaves = [2, 3, 13, 11 if c == 12 else 12]
        for perm in itertools.permutations((0.25, 0.5, 0.75, 0.9)):
            for rperm in ((0, 1, 2, 3), (3, 2, 1, 0)):
                for K in (P1, P2):
                    leaf = dict(zip(leaves, perm))
                    lrew = dict(zip(leaves, rperm))
                    st = {0: (PR, 0, [(0.5, 1), (0.5, c)]),
                          1: (K, 1, [(n1, leaves[0]), ("y", leaves[1])]),
                          c: (K, 0, [(nc, leaves[2]), ("z", leaves[3])]),
                          L: (PR, 0, [(1, L)]), W: (PR, 0, [(1, W)])}
                    for s_, p in leaf.items():
                        st[s_] = (PR, lrew[s_], [(p, W), (round(1 - p, 2), L)])
                    for s_ in range(16):
                        st.setdefault(s_, (PR, 0, [(1, W)]))
                    games.append(dict(rewards=[st[i][1] for i in range(16)], players=[st[i][0] for i in range(16)],
                                      transition_list=[list(st[i][2]) for i in range(16)], final_states=[W]))
    return games


def U_H_games(length=520):
    """one very long dead corridor: the initial state flips a coin between a sure win and a corridor of `length` states
    (Player 2 only, or alternately probabilistic and Player 2) that ends in the losing state; after conditioning the corridor is cut off at its
    first state and every later state loses its only predecessor, one after the other"""
    games = []
    for variant in (0, 1):
        n = length + 4
        V, L, W = n - 3, n - 2, n - 1
        players = [PR]
        tl = [[(0.5, 1), (0.5, V)]]
        rewards = [1]
        for i in range(1, length + 1):
            nxt = i + 1 if i < length else L
            if variant == 0 or i % 2 == 0:       # variant 0: Player 2 only (Player 2 keeps its transitions, so the cut-off cascades)
                players.append(P2)
                tl.append([(ACTIONS[0], nxt)])
            else:
                players.append(PR)
                tl.append([(1, nxt)])
            rewards.append(i % 2)
        players += [PR, PR, PR]
        tl += [[(1, W)], [(1, L)], [(1, W)]]
        rewards += [2, 0, 0]
        games.append(dict(rewards=rewards, players=players, transition_list=tl, final_states=[W]))
    return games


def U_J_games(length=1100):
    """one long live chain 0 -> 1 -> ... -> win (deterministic probabilistic states, every tenth a one-action player state):
    depth-sensitive code (recursion along the chain) behaves differently under different numberings of the same game"""
    n = length + 2
    L, W = n - 2, n - 1
    players, tl, rewards = [], [], []
    for i in range(length):
        nxt = i + 1 if i + 1 < length else W
        if i % 10 == 5:
            players.append(P1 if i % 20 == 5 else P2)
            tl.append([(ACTIONS[0], nxt)])
        else:
            players.append(PR)
            tl.append([(1, nxt)])
        rewards.append(1 if i % 100 == 0 else 0)
    players += [PR, PR]
    tl += [[(1, L)], [(1, W)]]
    rewards += [0, 0]
    return [dict(rewards=rewards, players=players, transition_list=tl, final_states=[W])]


def _sliding_corridor(n, p, q, m):
    """620-state acyclic game: fillers (p final / 1-p trap), a corridor of 5 probability-1 steps numbered upwards that
    starts at index p and ends in the final state (it settles one step per sweep), read only by the state at index q,
    which the initial Player-1 state prefers (value 1) to a 0.6 coin; m absorbing-type states are numbered 1..m (the
    other absorbing states come last)."""
    traps_low = list(range(1, m + 1))
    fin, sink = n - 2, n - 1
    if m >= 2:
        fin, sink = 1, 2
    traps = [t for t in traps_low if t not in (fin, sink)] + [n - 3, n - 4]
    reserved = set([0, fin, sink] + traps)
    corridor = []
    s = p
    while len(corridor) < 5:
        if s not in reserved:
            corridor.append(s)
        s += 1
    reserved |= set(corridor)
    free = [s for s in range(n) if s not in reserved]
    reader = free[0] if q == "low" else free[-1]
    coin = free[1] if q == "low" else free[-2]
    players, rewards, tl = [PR] * n, [0] * n, [None] * n
    for k, s in enumerate(free):
        pr = (0.5, 0.6, 0.7, 0.8, 0.9)[(s * 7 + k) % 5]
        tl[s] = [(pr, fin), (round(1 - pr, 1), traps[s % len(traps)])]
        rewards[s] = s % 3
    for k, s in enumerate(corridor):
        tl[s] = [(1, corridor[k + 1] if k + 1 < len(corridor) else fin)]
        rewards[s] = 1
    tl[reader] = [(1, corridor[0])]
    rewards[reader] = 2
    tl[coin] = [(0.6, fin), (0.4, sink)]
    players[0] = P1
    tl[0] = [(ACTIONS[0], reader), (ACTIONS[1], coin)]
    for t in traps:
        tl[t] = [(1, sink)]
    tl[fin] = [(1, fin)]
    tl[sink] = [(1, sink)]
    return dict(rewards=rewards, players=players, transition_list=tl, final_states=[fin])


def U_SC_games(block_sizes=(256,)):
    """sliding-corridor games: the late-settling corridor is placed at every offset -6..+1 around every multiple of the given
    block sizes, the reader before or after everything else, with 0 or 8 absorbing-type states numbered first.  Sweeps that
    are organised in chunks / windows / dependency blocks of those sizes go wrong for some placement."""
    n = 620
    starts = set()
    for B in block_sizes:
        for b in range(B, n - 12, B):
            for off in range(-6, 2):
                starts.add(b + off)
    games = []
    for p in sorted(starts):
        for q in ("low", "high"):
            for m in (0, 8):
                games.append(_sliding_corridor(n, p, q, m))
    return games


def U_M_games():
    """tiny surviving mass and tolerance-level false ties (found by an independent search for genuine defects):
    (a) a probabilistic state whose dead branches carry all but 1e-13 / 2^-54 of the probability, with a rewarded live branch,
        as the initial state or behind a coin: after conditioning the live branch must get probability 1;
    (b) a Player-1 state whose second action is worse by less than the rounding granularity (value 0.5 against
        0.5 * (1 - t)) and leads back to it through a state that only leaks into the losing state."""
    games = []
    for t in (1e-13, 2.0 ** -54, 1e-10):
        for placement in ("direct", "behindPR"):
            for order in (0, 1):
                names = (["entry"] if placement != "direct" else []) + ["focus", "V", "L", "W"]
                idx = {nme: i for i, nme in enumerate(names)}
                rest = 0.5 - t
                row = [(0.5, idx["L"]), (rest, idx["L"]), (t, idx["V"])]
                if order:
                    row = [row[2], row[0], row[1]]
                st = {"focus": (PR, 1, row), "V": (PR, 100, [(1, idx["W"])]), "L": (PR, 0, [(1, idx["L"])]), "W": (PR, 0, [(1, idx["W"])])}
                if placement == "behindPR":
                    st["entry"] = (PR, 0, [(0.5, idx["focus"]), (0.5, idx["W"])])
                games.append(dict(rewards=[st[n_][1] for n_ in names], players=[st[n_][0] for n_ in names],
                                  transition_list=[list(st[n_][2]) for n_ in names], final_states=[idx["W"]]))
    return games


def U_M2_games():
    """tolerance-level false ties: part (b) of U-M, used by C06 only (the other checks cannot get a result from them)"""
    games = []
    for t in (1e-7, 4e-7):
        for r0 in (0, 1):
            # 0: P1 (a -> 1, ab -> 2); 1: (1-t -> 0, t -> L); 2: (1/2 W, 1/2 L)
            games.append(dict(rewards=[r0, 0, 0, 0, 0], players=[P1, PR, PR, PR, PR],
                              transition_list=[[(ACTIONS[0], 1), (ACTIONS[1], 2)], [(1 - t, 0), (t, 3)], [(0.5, 4), (0.5, 3)], [(1, 3)], [(1, 4)]],
                              final_states=[4]))
    return games


def U_RB_games():
    """exact ties whose two floating-point evaluations fall on different sides of a 6-digit rounding boundary although
    everything has converged (acyclic games): reachability 0.75*0.85*0.875 against 0.85*0.75*0.875 (= 0.5578125 exactly), and
    expected rewards 0.001*(0.0025*9) against 0.005*(0.0005*9) (= 0.0000225 exactly); plus exact ties between rewards of 1e10."""
    games = []
    import itertools as it
    L, W = 9, 10
    for chooser in (P1, P2):
        for o1, o2 in it.permutations(list(it.permutations((0.75, 0.85, 0.875))), 2):
            if o1 > o2:
                continue
            # 0 chooser; 1,2,3 chain a; 4,5,6 chain b; 7,8 unused fillers; 9 L; 10 W
            tl = [[(ACTIONS[0], 1), (ACTIONS[1], 4)]]
            for base, order in ((1, o1), (4, o2)):
                for k, p in enumerate(order):
                    nxt = base + k + 1 if k < 2 else W
                    tl.append([(p, nxt), (round(1 - p, 3), L)])
            tl += [[(1, W)], [(1, W)], [(1, L)], [(1, W)]]
            games.append(dict(rewards=[0, 1, 0, 0, 2, 0, 0, 0, 0, 0, 0], players=[chooser] + [PR] * 10, transition_list=tl, final_states=[W]))
    # reward ties: both candidates reach the goal surely
    for chooser in (P1, P2):
        for swap in (0, 1):
            for big in (9, 10 ** 10, 10 ** 10 + 1):
                # 0 chooser; 1: (pa -> 3, rest -> 6); 2: (pb -> 4, rest -> 6); 3: (qa -> 5, rest -> 6); 4: (qb -> 5, rest -> 6); 5: reward big -> W; 6: Z -> W; 7: W
                (pa, qa), (pb, qb) = ((0.001, 0.0025), (0.005, 0.0005)) if big == 9 else ((0.2, 1.0), (0.4, 0.5))
                if swap:
                    (pa, qa), (pb, qb) = (pb, qb), (pa, qa)
                def row(p, t):
                    return [(p, t), (round(1 - p, 6), 6)] if p < 1 else [(1, t)]
                tl = [[(ACTIONS[0], 1), (ACTIONS[1], 2)], row(pa, 3), row(pb, 4), row(qa, 5), row(qb, 5), [(1, 7)], [(1, 7)], [(1, 7)]]
                games.append(dict(rewards=[0, 0, 0, 0, 0, big, 0, 0], players=[chooser] + [PR] * 7, transition_list=tl, final_states=[7]))
    return games


# ------------------------------------------------------------------------------------------------ U-PAIR

def U_PAIR_games(finals_options=((4,), (3,), (3, 4))):
    """a family made for ORDERED PAIRS (solve G1, then G2 in the same process): 5 states - entry 0, inner 1 and 2, absorbing 3 and 4 -
    whose members coincide on one aspect and differ on another, so that state kept between two solves under a too coarse key is hit:
    the same graph with other final states; the same rows with other owners; the same concatenated successor sequence grouped
    differently into rows (1,2 | 3,4 | 3,4 against 1,2,3 | 4 | 3,4 and 1,2 | 3 | 4,3,4); a row with its successors swapped."""
    shapes = [((1, 2), (3, 4), (3, 4)), ((1, 2), (4, 3), (3, 4)), ((1, 2, 3), (4,), (3, 4)), ((1, 2), (3,), (4, 3, 4)), ((2, 1), (3, 4), (4, 3))]
    kinds = [(k0, k1, k2) for k0 in (P1, P2, PR) for (k1, k2) in ((PR, PR), (P1, PR), (PR, P2), (P2, P1), (P1, P1))]
    vec = {1: (1,), 2: (0.5, 0.5), 3: (0.25, 0.25, 0.5)}
    out = []
    for shape in shapes:
        for ks in kinds:
            for fin in finals_options:
                players, tl = [], []
                for k, tg in zip(ks, shape):
                    players.append(k)
                    if k == PR:
                        tl.append([(vec[len(tg)][i], t) for i, t in enumerate(tg)])
                    else:
                        tl.append([(ACTIONS[i], t) for i, t in enumerate(tg)])
                players += [PR, PR]
                tl += [[(1, 3)], [(1, 4)]]
                out.append(game_of(players, tl, list(fin), [1, 2, 3, 0, 0]))
    return out


# ------------------------------------------------------------------------------ families added after the sixth seeded round

def U_WIDE_games():
    """one focus state with MANY successors (9, 10, 12, 17, 40): every successor is a state of its own that is either dead (falls into
    lose) or live (goes to win, some through a coin); dead/live patterns: alternating, dead prefix, dead suffix, a single live one in the
    middle, a single dead one, every third live; the focus state is probabilistic (uniform or increasing decimal weights), Player 1 or
    Player 2, and is state 0 or sits behind a coin."""
    games = []
    for deg in (9, 10, 12, 17, 40):
        patterns = {"alternating": [i % 2 == 0 for i in range(deg)], "dead-prefix": [i >= deg // 2 for i in range(deg)],
                    "dead-suffix": [i < deg // 2 for i in range(deg)], "one-live": [i == deg // 2 for i in range(deg)],
                    "one-dead": [i != deg - 2 for i in range(deg)], "third-live": [i % 3 == 2 for i in range(deg)]}
        for pname, live in sorted(patterns.items()):
            for kind in (PR, P1, P2):
                for weights in (("uniform", "decimal") if kind == PR else ("-",)):
                    for behind in (False, True):
                        f = 1 if behind else 0
                        first = f + 1
                        lose, win = first + deg, first + deg + 1
                        n = win + 1
                        players, tl, rewards = [], [], []
                        if behind:
                            players.append(PR); tl.append([(0.5, f), (0.5, win)]); rewards.append(0)
                        if kind == PR:
                            if weights == "uniform" and deg in (10, 40):
                                ws = [1.0 / deg] * deg
                            elif weights == "uniform":
                                ws = [Fraction(1, deg)] * deg
                            else:
                                tot = deg * (deg + 1) // 2
                                ws = [Fraction(i + 1, tot) for i in range(deg)]
                            ws = [float(w) for w in ws]
                            ws[-1] = 1.0 - sum(ws[:-1])
                            if abs(sum(ws) - 1.0) > 1e-12 or min(ws) <= 0:
                                continue
                            row = [(ws[i], first + i) for i in range(deg)]
                        else:
                            row = [("act%d" % i, first + i) for i in range(deg)]
                        players.append(kind); tl.append(row); rewards.append(1)
                        for i in range(deg):
                            players.append(PR)
                            if live[i]:
                                tl.append([(1, win)] if i % 4 else [(0.5, win), (0.5, lose)])
                                rewards.append(1 + i % 3)
                            else:
                                tl.append([(1, lose)])
                                rewards.append(2)
                        players += [PR, PR]; tl += [[(1, lose)], [(1, win)]]; rewards += [0, 0]
                        games.append(game_of(players, tl, [win], rewards))
    return games


def U_BIG_games():
    """huge rewards (10**12, 10**19 > 2**63, 2*10**19, 10**25): choosers between branches that all carry such rewards, near-ties of the
    reachability values (1/2 against 1/2 + 4e-4, 5e-5) next to them, both players, with a dead branch and without"""
    games = []
    for big in (10 ** 12, 10 ** 19, 2 * 10 ** 19, 10 ** 25):
        for chooser in (P1, P2):
            for p2nd in (0.5, 0.5004, 0.50005, 0.25):
                for swap in (0, 1):
                    for dead in (0, 1):
                        # 0 chooser -> 1 | 2 ; 1: coin (1/2 win via 3, 1/2 lose) ; 2: coin (p2nd win via 4, rest lose); 3, 4 carry the rewards; 5 lose, 6 win
                        a, b = (1, 2) if not swap else (2, 1)
                        row0 = [(ACTIONS[0], a), (ACTIONS[1], b)] + ([(ACTIONS[2], 5)] if dead else [])
                        tl = [row0, [(0.5, 3), (0.5, 5)], [(p2nd, 4), (1 - p2nd, 5)], [(1, 6)], [(1, 6)], [(1, 5)], [(1, 6)]]
                        games.append(game_of([chooser, PR, PR, PR, PR, PR, PR], tl, [6], [0, 0, 0, big, 2 * big, 0, 0]))
            # a Player 2 / Player 1 state all of whose successors are worth at least 2**63, below a coin
            for rew in ((big, big), (big, 2 * big), (2 * big, big)):
                tl = [[(0.5, 1), (0.5, 4)], [("cheap", 2), ("dear", 3)], [(1, 5)], [(1, 5)], [(1, 4)], [(1, 5)]]
                games.append(game_of([PR, chooser, PR, PR, PR, PR], tl, [5], [0, 0, rew[0], rew[1], 0, 0]))
    return games


def U_MF_games():
    """many final states (40, 70, 130), all absorbing; the losing sink sits INSIDE their index range (a gap); listed ascending, descending,
    interleaved, and ascending / descending with one entry repeated (so that the list is as long as the index range although one state of
    the range is not final); a coin, a Player 1 and a Player 2 state choose among some of them and the losing sink"""
    games = []
    for nf in (40, 70, 130):
        n = 4 + nf
        lose = 3 + nf // 3
        finals_sorted = [s for s in range(3, n) if s != lose]
        orders = {"ascending": finals_sorted, "descending": finals_sorted[::-1],
                  "interleaved": finals_sorted[1::2] + finals_sorted[0::2][::-1],
                  "ascending+repeat": finals_sorted + [finals_sorted[nf // 2]],
                  "descending+repeat": finals_sorted[::-1] + [finals_sorted[5]]}
        for oname, finals in sorted(orders.items()):
            for variant in (0, 1):
                lo, mid, hi = finals_sorted[0], finals_sorted[nf // 2], finals_sorted[-1]
                tl = [[(0.5, 1), (0.5, 2)],
                      [(ACTIONS[0], lose), (ACTIONS[1], mid if variant else hi)],
                      [(ACTIONS[0], lo), (ACTIONS[1], lose if variant else hi)]]
                tl += [[(1, s)] for s in range(3, n)]
                games.append(game_of([PR, P1, P2] + [PR] * (n - 3), tl, list(finals), [1, 2, 1] + [0] * (n - 3)))
    return games


def U_ULP_games():
    """values above 2**33, where one unit in the last place of a double exceeds the solver's threshold of 1e-6: a 6-state stopping game
    (Player 1 entry, Player 2 state that could go to the goal, a probabilistic state that leaves a rewarded cycle with probability 3/4)
    with integer rewards k * 10**9; the vector found by the third defect search plus 47 vectors from a fixed linear congruential sequence,
    and the same with rewards k * 10**13"""
    games = []
    vecs = [[8, 15, 9, 11]]
    x = 12345
    for _ in range(47):
        v = []
        for _ in range(4):
            x = (1103515245 * x + 12345) % (2 ** 31)
            v.append(1 + (x >> 8) % 30)
        vecs.append(v)
    for scale in (10 ** 9, 10 ** 13):
        for v in (vecs if scale == 10 ** 9 else vecs[:12]):
            tl = [[(ACTIONS[0], 1), (ACTIONS[1], 2)], [(ACTIONS[0], 2), (ACTIONS[1], 4)], [(0.25, 3), (0.75, 5)], [(1, 0)], [(1, 4)], [(1, 5)]]
            games.append(game_of([P1, P2, PR, PR, PR, PR], tl, [4], [k * scale for k in v] + [0, 0]))
    return games
