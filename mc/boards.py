"""U-B: games produced by the real generator (through the file writer and the reader), for checks that need no exact oracle."""
import os
import shutil
import tempfile

from .repo import roberta_generator as G, conditionalrewards as CR

KEYS = ("rewards", "players", "transition_list", "final_states")


def generate(w, l, seed, force_down, probs=(0.1, 0.1, 0.1), loose=0.3, max_reward=3):
    """returns {game name: game} for one random board"""
    tmp = tempfile.mkdtemp(prefix="crverif_ub_")
    try:
        moves, rewards, loose_tiles = G.gen_rnd_board(seed, l, w, loose, max_reward, force_down)
        path = os.path.join(tmp, "b.py")
        G.write_robots(path, l, w, moves, rewards, loose_tiles, probs[2], probs[0], probs[1])
        d = CR.read_dict_from_file(path)
    finally:
        shutil.rmtree(tmp, ignore_errors=True)
    return {k: {kk: g[kk] for kk in KEYS} for k, g in d.items()}


def board_list(thorough, seed=0):
    sizes = [(1, 1), (2, 2), (3, 3), (2, 5), (5, 4)]
    seeds = [seed % 5, 47]
    if thorough:
        sizes += [(10, 10), (20, 10), (3, 60)]
        seeds = [0, 1, 2, 47]
    out = []
    for (w, l) in sizes:
        for s in seeds:
            for fd in (False, True):
                for probs in ((0.1, 0.1, 0.1), (0.5, 0.05, 0.29)):
                    out.append((w, l, s, fd, probs))
    return out


def label(b):
    w, l, s, fd, probs = b
    return "generated board w=%d l=%d seed=%d%s robot/light/tile=%s" % (w, l, s, " force-down" if fd else "", probs)
