"""U-X: the games shipped in /repo/inputs (hand-written examples and committed boards)."""
import glob
import os

from .repo import REPO, conditionalrewards as CR, P1, P2, PR


def all_input_files():
    return sorted(glob.glob(os.path.join(REPO, "inputs", "*.py")))


def load_all():
    out = []
    for path in all_input_files():
        d = CR.read_dict_from_file(path)
        for name, g in d.items():
            out.append((os.path.basename(path), name, g))
    return out


def _combos(g):
    c = 1
    for p, row in zip(g["players"], g["transition_list"]):
        if p != PR:
            c *= max(1, len(row))
    return c


def small_example_games(max_states=22, max_combos=64):
    """games small enough for the exact oracle (strategy enumeration)"""
    out = []
    for fname, name, g in load_all():
        if len(g["players"]) <= max_states and _combos(g) <= max_combos:
            gg = {k: g[k] for k in ("rewards", "players", "transition_list", "final_states")}
            out.append(gg)
    return out


def board_games(max_states=None):
    out = []
    for fname, name, g in load_all():
        if max_states is None or len(g["players"]) <= max_states:
            out.append((fname, name, {k: g[k] for k in ("rewards", "players", "transition_list", "final_states")}))
    return out
