"""Exhaustive sweeps of the game universes for the solver properties C01-C06 and C14.

One generic driver: a *plan* lists (universe, index range/stride, reward policy, options); the
universes are explicit products, split into contiguous index ranges over the worker pool; every
structure of a range is decoded, solved by the real code and judged by mc.judge.
"""
import itertools

from . import judge as J
from . import oracle as O
from . import par
from . import run as Rn
from . import universe as U
from .repo import P1, P2, PR

THRESHOLDS = (1e-2, 1e-3, 1e-9)
STOP_CPU = 0.3                # alarm for solve() on stopping games in checks other than C06 (legitimate solves: < 1 ms)
STOP_TIMEOUT_CAP = 20         # a shard gives up after this many unreturned runs on stopping games (reported as incomplete)
NONSTOP_CPU = 0.05            # alarm for solve() on non-stopping structures: result used if it comes, never judged otherwise

_UNIVERSES = {}


def universe(name):
    if name not in _UNIVERSES:
        _UNIVERSES[name] = {"U-T3": U.U_T3, "U-S2": U.U_S2, "U-S2d2": lambda: U.U_S2(2), "U-S3": U.U_S3,
                            "U-S4r": U.U_S4r, "U-T4r": U.U_T4r, "U-S5r": U.U_S5r, "U-S6r": U.U_S6r}[name]()
    return _UNIVERSES[name]


# ------------------------------------------------------------------------------------ one game, one property

def _new_acc():
    return {"structures": 0, "games": 0, "executions": 0, "judged": 0, "nontrivial": 0, "skipped": 0,
            "nonstopping_unjudged": 0, "max_ratio": 0.0, "violations": [], "known": {}, "samples": [],
            "outcomes": {}, "classes": {}}


def is_slow(sc, rewards):
    """games that legitimately need very many sweeps: a transition probability within 1e-2 of 1 (but not 1), or large rewards"""
    if max(rewards) >= 50 or sc.n > 40:
        return True
    for row in sc.tl:
        for lab, _ in row:
            if not isinstance(lab, str) and 0.99 <= lab < 1:
                return True
    return False


def _count(acc, key, sub):
    d = acc.setdefault(key, {})
    d[sub] = d.get(sub, 0) + 1


def _on_cycle_in(tl, T, s):
    seen = set()
    todo = [t for _, t in tl[s] if t in T]
    while todo:
        u = todo.pop()
        if u == s:
            return True
        if u in seen:
            continue
        seen.add(u)
        todo.extend(t for _, t in tl[u] if t in T)
    return False


def analyse_game(prop, sc, rewards, acc, thresholds=()):
    """run both modes of one game and judge property `prop`; returns (findings, known) where each
    entry is (klass, observed, expected, explanation, config)"""
    stopping = sc.stopping and all(rewards[s] == 0 for s in sc.absorbing)
    findings, known = [], []
    acc["games"] += 1

    def add(fs, cfg):
        for f in fs:
            findings.append(f + (cfg,))

    def add_known(ks, cfg):
        for k in ks:
            known.append(k + (cfg,))

    if prop in ("C02", "C06", "C14") and not stopping:
        acc["skipped"] += 1
        return findings, known

    runs = {}
    for prune in (True, False):
        slow = is_slow(sc, rewards)
        if stopping and prop == "C06":
            first = Rn.solve(sc.game(rewards), prune, cpu_s=10.0 if slow else 1.0, confirm=False)
            if first.kind == "timeout":
                pre = J.explain_no_return(sc, rewards, prune)
                if pre is not None and pre[0].startswith("SKIP") and slow:
                    # "very many sweeps needed" is an expectation, not an observation: the run gets a much longer alarm once, and if it
                    # comes back (with a result or an exception) it is judged like any other run
                    again = Rn.solve(sc.game(rewards), prune, cpu_s=45.0, confirm=False)
                    if again.kind != "timeout":
                        first, pre = again, None
                if first.kind != "timeout":
                    pass
                elif pre is not None:
                    acc["executions"] += 1
                    _count(acc, "outcomes", "no-return-explained")
                    if pre[0].startswith("SKIP"):
                        acc["too_slow_to_judge"] = acc.get("too_slow_to_judge", 0) + 1
                    else:
                        add_known([pre], {"prune": prune})
                    continue
                else:
                    first = Rn.solve(sc.game(rewards), prune, cpu_s=30.0 if slow else 1.0, max_lines=60_000_000 if slow else 1_000_000)
            gr = J.GameRun(sc, rewards, prune, confirm=True, outcome=first)
        elif stopping:
            # termination on stopping games is C06's verdict; the other properties only need the result, so a run that
            # does not come back within the alarm is counted (and ends the shard early if it keeps happening), never judged
            gr = J.GameRun(sc, rewards, prune, confirm=False,
                           outcome=Rn.solve(sc.game(rewards), prune, cpu_s=8.0 if slow else STOP_CPU, confirm=False))
            if gr.out.kind == "timeout":
                acc["stopping_timeouts"] = acc.get("stopping_timeouts", 0) + 1
        else:
            gr = J.GameRun(sc, rewards, prune, confirm=False,
                           outcome=Rn.solve(sc.game(rewards), prune, cpu_s=NONSTOP_CPU, confirm=False))
        runs[prune] = gr
        acc["executions"] += 1
        _count(acc, "outcomes", gr.out.kind)
        if gr.out.kind == "timeout" and not stopping:
            acc["nonstopping_unjudged"] += 1

    if prop == "C06":
        for prune, gr in list(runs.items()):
            acc["judged"] += 1
            for f6 in J.judge_c06(sc, gr):
                if f6[0].startswith("SKIP"):
                    acc["too_slow_to_judge"] = acc.get("too_slow_to_judge", 0) + 1
                elif f6[0].startswith("KF-"):
                    add_known([f6], {"prune": prune})
                else:
                    add([f6], {"prune": prune})
        if sc.vstar[0] == 0 or _multi_dead(sc):
            acc["nontrivial"] += 1
        return findings, known

    if prop in ("C01", "C04"):
        seam_needed = any(not gr.ok for gr in runs.values()) or not stopping
        vectors = []
        for prune, gr in runs.items():
            if gr.ok:
                vectors.append(("solve() prune=%s" % prune, {"prune": prune}, gr.out.result[3], gr.out.result[1]))
        if seam_needed:
            so = Rn.solve_reach_seam(sc.game(rewards), False, cpu_s=30.0 if slow else 1.0, max_lines=60_000_000 if slow else 1_000_000)
            acc["executions"] += 1
            if so.kind == "ok":
                vectors.append(("Solver.solve_reachability", {"seam": True}, so.result[0], so.result[1]))
            elif prop == "C01":
                add([("C01/no-probabilities", so.error, "a probability vector",
                      "the reachability seam produced no probabilities: %s" % so.error)], {"seam": True})
        if prop == "C01":
            for where, cfg, probs, _ in vectors:
                f, ratio = J.judge_probs(sc, probs, where=where)
                acc["judged"] += 1
                acc["max_ratio"] = max(acc["max_ratio"], ratio)
                add(f, cfg)
            if runs[True].ok and runs[False].ok and runs[True].out.result[3] != runs[False].out.result[3]:
                add([("C01/modes-differ", runs[True].out.result[3], runs[False].out.result[3],
                      "probabilities differ between pruning on and off")], {"prune": "both"})
            for thr, by_attr in [(t, b) for t in thresholds for b in (False, True)]:
                Rn.THRESHOLD_BY_ATTRIBUTE = by_attr
                try:
                    so = Rn.solve_reach_seam(sc.game(rewards), False, threshold=thr)
                finally:
                    Rn.THRESHOLD_BY_ATTRIBUTE = False
                how = "Solver(...).threshold = %g" % thr if by_attr else "Solver(threshold=%g)" % thr
                acc["executions"] += 1
                if so.kind != "ok":
                    add([("C01/no-probabilities", so.error, "a probability vector",
                          "%s: the reachability seam produced no probabilities: %s" % (how, so.error))],
                        {"seam": True, "threshold": thr, "by_attribute": by_attr})
                    continue
                f, ratio = J.judge_probs(sc, so.result[0], threshold=thr, where=how)
                acc["judged"] += 1
                acc["max_ratio"] = max(acc["max_ratio"], ratio)
                add(f, {"seam": True, "threshold": thr, "by_attribute": by_attr})
            fin = set(sc.finals)
            T = set(s for s in range(sc.n) if sc.vstar[s] > 0 and s not in fin)
            if any(0 < sc.vstar[s] < 1 and _on_cycle_in(sc.tl, T, s) for s in T):
                acc["nontrivial"] += 1
        else:
            for where, cfg, probs, strats in vectors:
                f, k = J.judge_c04(sc, strats, probs, where=where)
                acc["judged"] += 1
                add(f, cfg)
                add_known(k, cfg)
            if runs[True].ok and runs[False].ok and runs[True].out.result[1] != runs[False].out.result[1]:
                add([("C04/modes-differ", runs[True].out.result[1], runs[False].out.result[1],
                      "reachability strategies differ between pruning on and off")], {"prune": "both"})
            v = sc.vstar
            for s in range(sc.n):
                if sc.players[s] != PR and len(sc.tl[s]) >= 2:
                    vals = [v[t] for _, t in sc.tl[s]]
                    tgts = [t for _, t in sc.tl[s]]
                    if len(set(vals)) > 1 or (len(set(tgts)) > 1):
                        acc["nontrivial"] += 1
                        break
        return findings, known

    # C02, C03, C05, C14 need complete results
    nontrivial = False
    for prune, gr in runs.items():
        if not gr.ok:
            continue
        cfg = {"prune": prune}
        res = gr.out.result
        bad = Rn.well_shaped(res, sc.players)
        if bad:
            add([(prop + "/malformed-result", bad, "complete 8-tuple", "cannot judge: " + bad)], cfg)
            continue
        if prop == "C03":
            acc["judged"] += 1
            add(J.judge_c03(sc, gr), cfg)
        elif prop == "C02":
            f, ratio, outside = J.judge_c02(sc, gr)
            if outside:
                acc["skipped"] += 1
            else:
                acc["judged"] += 1
                acc["max_ratio"] = max(acc["max_ratio"], ratio)
            add(f, cfg)
            if prune and any(gr.ctl[s] != sc.etl[s] for s in gr.R):
                nontrivial = True
        elif prop == "C05":
            acc["judged"] += 1
            add(J.judge_c05_inclusion(sc, res), cfg)
            if stopping:
                f, judged, skipped = J.judge_c05_exact(sc, gr)
                acc["exact_states_judged"] = acc.get("exact_states_judged", 0) + judged
                acc["exact_states_out_of_scope"] = acc.get("exact_states_out_of_scope", 0) + skipped
                add([x for x in f if not x[0].startswith("KF-")], cfg)
                add_known([x for x in f if x[0].startswith("KF-")], cfg)
            fs, rs = res[0], res[1]
            if any(sc.players[s] == P1 and fs[s] is not None and rs[s] is not None and len(fs[s]) < len(rs[s])
                   for s in range(sc.n)):
                nontrivial = True
        elif prop == "C14":
            f, in_scope, ratio = J.judge_c14(sc, gr)
            if in_scope:
                acc["judged"] += 1
                acc["max_ratio"] = max(acc["max_ratio"], ratio)
                if any(sc.players[s] != PR and len(gr.ctl[s]) >= 2 for s in gr.R):
                    nontrivial = True
            else:
                acc["skipped"] += 1
            add(f, cfg)
    if prop == "C03":
        pats = _dead_patterns(sc)
        for p in pats:
            _count(acc, "classes", p)
        nontrivial = bool(pats)
    if nontrivial:
        acc["nontrivial"] += 1
    return findings, known


def _multi_dead(sc):
    v = sc.vstar
    for s in range(sc.n):
        if sc.players[s] in (P1, PR) and sum(1 for _, t in sc.tl[s] if v[t] == 0) >= 2:
            return True
    return False


def _dead_patterns(sc):
    """patterns of states with >= 2 dead successors (input/oracle side)"""
    v = sc.vstar
    pats = set()
    for s in range(sc.n):
        if sc.players[s] not in (P1, PR):
            continue
        flags = [v[t] == 0 for _, t in sc.tl[s]]
        k = sum(flags)
        if k < 2:
            continue
        idx = [i for i, f in enumerate(flags) if f]
        if k == len(flags):
            pats.add("all-dead")
        if any(b - a == 1 for a, b in zip(idx, idx[1:])):
            pats.add("adjacent")
        if any(b - a > 1 for a, b in zip(idx, idx[1:])):
            pats.add("separated")
        tg = [sc.tl[s][i][1] for i in idx]
        if len(set(tg)) < len(tg):
            pats.add("duplicated-target")
        if idx[0] == 0:
            pats.add("first")
        if idx[-1] == len(flags) - 1:
            pats.add("last")
        pats.add("%d-dead" % k)
    return pats


def mk_case(prop, sc, rewards, finding, universe_name=None, index=None):
    klass, observed, expected, explanation, cfg = finding
    cfg = dict(cfg)
    if universe_name:
        cfg["universe"] = universe_name
    return {"kind": "game", "klass": klass, "input": sc.game(rewards), "config": cfg,
            "observed": _lit(observed), "expected": _lit(expected), "explanation": explanation, "property": prop}


def _lit(x):
    """make a value a plain Python literal"""
    if isinstance(x, (str, int, float, bool)) or x is None:
        return x
    if isinstance(x, (list, tuple)):
        return [_lit(y) for y in x]
    if isinstance(x, dict):
        return {str(k): _lit(v) for k, v in x.items()}
    return str(x)


def record(prop, sc, rewards, findings, known, acc, universe_name):
    for f in findings:
        kl = f[0]
        bucket = [c for c in acc["violations"] if c["klass"] == kl]
        acc["n_violations"] = acc.get("n_violations", 0) + 1
        if len(bucket) < 2:
            case = mk_case(prop, sc, rewards, f, universe_name)
            if acc.get("shard") is not None:
                # what this worker process had been given: lets the replay re-execute the games solved before this one
                case.setdefault("config", {})["explored_in_shard"] = acc["shard"]
                if acc["shard"].get("debug_log"):
                    case["explanation"] = "%s [solved with the root logger at DEBUG level, the tool's -l d]" % case.get("explanation")
            acc["violations"].append(case)
    for k in known:
        kid = k[0]
        d = acc["known"].setdefault(kid, {"count": 0, "cases": [], "what": ""})
        d["count"] += 1
        if len(d["cases"]) < 2:
            c = mk_case(prop, sc, rewards, k, universe_name)
            c["klass"] = kid
            d["cases"].append(c)


# ------------------------------------------------------------------------------------------- reward policy

def reward_list(policy, sc, n_inner=None):
    """reward vectors to run for a structure"""
    stop = sc.stopping
    n = sc.n
    if not stop:
        return [[0] * n]
    nonabs = [s for s in range(n) if s not in sc.absorbing]
    if policy == "ones":
        return [[1 if s in nonabs else 0 for s in range(n)]]
    if policy == "pat3":
        # three fixed patterns: all ones; 1,0,2,1,0,2,... by position; 0.5 / 3 alternating (float and int rewards, zero rewards inside)
        pats = (lambda k: 1, lambda k: (k + 1) % 3, lambda k: 0.5 if k % 2 else 3)
        out = []
        for pat in pats:
            r = [0] * n
            for k, s in enumerate(nonabs):
                r[s] = pat(k)
            out.append(r)
        return out
    if policy.startswith("all"):
        values = {"all01": (0, 1), "all012": (0, 1, 2), "allmixed": (0, 0.5, 7)}[policy]
        out = []
        for combo in itertools.product(values, repeat=len(nonabs)):
            r = [0] * n
            for s, x in zip(nonabs, combo):
                r[s] = x
            out.append(r)
        return out
    raise ValueError(policy)


# ------------------------------------------------------------------------------------------------ workers

def work(shard):
    kind = shard["kind"]
    prop = shard["prop"]
    acc = _new_acc()
    acc["shard"] = {k: (list(v) if isinstance(v, tuple) else v) for k, v in shard.items()}
    Rn.DEBUG_LOG = bool(shard.get("debug_log"))
    try:
        return _work(shard, kind, prop, acc)
    finally:
        Rn.DEBUG_LOG = False


def _analyse_aliased(prop, sc, rewards, acc, name):
    """the same game with its value-equal rows given as one shared list object (a legal way to write a description); judged like any other"""
    sc.alias = True
    try:
        before = len(acc["violations"])
        f, k = analyse_game(prop, sc, rewards, acc, ())
        acc["aliased_row_games"] = acc.get("aliased_row_games", 0) + 1
        if f or k:
            record(prop, sc, rewards, f, k, acc, name)
            for c in acc["violations"][before:]:
                c.setdefault("config", {})["alias_rows"] = True
                c["explanation"] = "%s [value-equal rows of different states passed as one shared list object]" % c.get("explanation")
    finally:
        sc.alias = False


def _pair_second(prop, game, first):
    """in a process that has just solved `first`: judge `game` like any other game of the sweep"""
    acc = _new_acc()
    sc = J.SCache(game["players"], game["transition_list"], game["final_states"])
    f, k = analyse_game(prop, sc, game["rewards"], acc, ())
    if f or k:
        record(prop, sc, game["rewards"], f, k, acc, "U-PAIR")
        for c in acc["violations"]:
            c.setdefault("config", {})["solved_before_in_the_same_process"] = first
            c["kind"] = "pair"
            c["explanation"] = "after solving %r (both modes) in the same, otherwise fresh process: %s" % (first, c.get("explanation"))
    for key in ("samples", "shard"):
        acc.pop(key, None)
    return acc


def _pair_first(prop, fam, i):
    """forked from the worker: solve game i in both modes, then fork once per second game"""
    tot = _new_acc()
    first = fam[i]
    for prune in (True, False):
        Rn.solve(first, prune, cpu_s=STOP_CPU, confirm=False)
    for j, game in enumerate(fam):
        if j == i:
            continue
        par.merge(tot, par.in_forked_child(lambda: _pair_second(prop, game, first)))
        tot["structures"] += 1
    tot.pop("samples", None)
    return tot


def _work(shard, kind, prop, acc):
    vcap = 3 if prop == "C06" else 6
    if kind == "pairs":
        fam = family_slice(shard)
        for i in range(shard["lo"], shard["hi"]):
            par.merge(acc, par.in_forked_child(lambda: _pair_first(prop, fam, i)))
            if acc.get("n_violations", 0) >= vcap:
                acc["truncated"] = 1
                break
        acc.pop("shard", None)
        acc["ordered_pairs"] = acc.get("structures", 0)
        return acc
    if kind == "universe":
        Un = universe(shard["universe"])
        it = Un.structures(shard["lo"], shard["hi"], shard.get("stride", 1), shard.get("offset", 0))
        for players, tl, finals in it:
            sc = J.SCache(players, tl, finals)
            acc["structures"] += 1
            if shard.get("stopping_only") and not sc.stopping:
                acc["skipped_structures"] = acc.get("skipped_structures", 0) + 1
                continue
            first = True
            for rewards in reward_list(shard["rewards"], sc):
                f, k = analyse_game(prop, sc, rewards, acc, shard.get("thresholds", ()) if first else ())
                first = False
                if f or k:
                    record(prop, sc, rewards, f, k, acc, shard["universe"])
                if shard.get("alias_rows") and sc.has_equal_rows():
                    _analyse_aliased(prop, sc, rewards, acc, shard["universe"])
            if len(acc["samples"]) < 2 and acc["structures"] % 97 == 1:
                acc["samples"].append({"universe": shard["universe"], "game": sc.game(rewards)})
            if acc.get("n_violations", 0) >= vcap or acc.get("stopping_timeouts", 0) >= STOP_TIMEOUT_CAP:
                acc["truncated"] = 1
                break
    elif kind == "games":
        for game in family_slice(shard)[shard["lo"]:shard["hi"]]:
            sc = J.SCache(game["players"], game["transition_list"], game["final_states"])
            acc["structures"] += 1
            rewards = game["rewards"]
            if not (sc.stopping and all(rewards[s] == 0 for s in sc.absorbing)):
                # non-stopping member: a positive reward on a cycle makes total reward legitimately infinite and
                # solve() rightly never returns; no property covers that, so such members are run with zero rewards
                rewards = [0] * sc.n
            f, k = analyse_game(prop, sc, rewards, acc, ())
            if f or k:
                record(prop, sc, rewards, f, k, acc, shard["family"])
            if shard.get("alias_rows") and sc.has_equal_rows():
                _analyse_aliased(prop, sc, rewards, acc, shard["family"])
            if len(acc["samples"]) < 1 and acc["structures"] % 211 == 1:
                acc["samples"].append({"universe": shard["family"], "game": game})
            if acc.get("n_violations", 0) >= vcap or acc.get("stopping_timeouts", 0) >= STOP_TIMEOUT_CAP:
                acc["truncated"] = 1
                break
    acc.pop("shard", None)
    return acc


_FAMILIES = {}


def _game_family(name, shard):
    key = (name, shard.get("max_deg"), shard.get("focus_reward"), shard.get("all_sizes"))
    if key not in _FAMILIES:
        if name == "U-F":
            _FAMILIES[key] = [U.U_F_build(c, shard.get("focus_reward", 1))[0] for c in U.U_F_cases(shard["max_deg"])]
        elif name == "U-D":
            _FAMILIES[key] = U.U_D_games()
        elif name == "U-H":
            _FAMILIES[key] = U.U_H_games()
        elif name == "U-J":
            _FAMILIES[key] = U.U_J_games()
        elif name == "U-M":
            _FAMILIES[key] = U.U_M_games()
        elif name == "U-M2":
            _FAMILIES[key] = U.U_M2_games()
        elif name == "U-RB":
            _FAMILIES[key] = U.U_RB_games()
        elif name == "U-PAIR":
            _FAMILIES[key] = U.U_PAIR_games()
        elif name in ("U-WIDE", "U-BIG", "U-MF", "U-ULP"):
            _FAMILIES[key] = {"U-WIDE": U.U_WIDE_games, "U-BIG": U.U_BIG_games, "U-MF": U.U_MF_games, "U-ULP": U.U_ULP_games}[name]()
        elif name == "U-SC":
            _FAMILIES[key] = U.U_SC_games((16, 32, 50, 64, 100, 128, 256) if shard.get("all_sizes") else (256,))
        elif name in ("U-E", "U-C", "U-L", "U-R", "U-P2", "U-N", "U-W", "U-Z", "U-G", "U-K"):
            _FAMILIES[key] = {"U-E": U.U_E_games, "U-C": U.U_C_games, "U-L": U.U_L_games, "U-R": U.U_R_games,
                              "U-P2": U.U_P2_games, "U-N": U.U_N_games, "U-W": U.U_W_games, "U-Z": U.U_Z_games, "U-G": U.U_G_games, "U-K": U.U_K_games}[name]()
        elif name == "U-A":
            _FAMILIES[key] = U.U_A_games(U.U_A_SIZES_ALL if shard.get("all_sizes") else U.U_A_SIZES_QUICK)
        elif name == "U-X":
            from .inputs import small_example_games
            _FAMILIES[key] = small_example_games()
        else:
            raise ValueError(name)
    return _FAMILIES[key]


def family_slice(shard):
    fam = _game_family(shard["family"], shard)
    if shard.get("stride", 1) > 1:
        fam = fam[shard.get("offset", 0) % shard["stride"]::shard["stride"]]
    return fam


def family_size(name, **kw):
    return len(family_slice(dict(kw, family=name)))


# -------------------------------------------------------------------------------------------------- plans

def universe_shards(prop, name, jobs, rewards="ones", frac=None, seed=0, thresholds=(), stopping_only=False, core=None, stride=None, debug_log=False, alias_rows=False):
    """frac = None: the whole universe; frac = k: the 1/k slice (contiguous block) selected by seed;
    stride = s: the arithmetic progression of indices offset, offset + s, ... with offset = 7919 * seed mod s (every state's row varies)."""
    Un = universe(name)
    lo, hi = 0, Un.size
    if stride:
        offset = (7919 * seed) % stride
        shards = []
        total = 0
        for a, b in par.ranges(Un.size, jobs * 6):
            first = a + ((offset - a) % stride)
            planned = 0 if first >= b else (b - 1 - first) // stride + 1
            total += planned
            shards.append({"kind": "universe", "prop": prop, "universe": name, "lo": a, "hi": b, "stride": stride, "offset": offset, "planned": planned,
                           "rewards": rewards, "thresholds": tuple(thresholds), "stopping_only": stopping_only, "debug_log": debug_log, "alias_rows": alias_rows})
        return shards, {"universe": name, "description": Un.description, "size": Un.size, "explored_structures": total,
                        "fraction": "indices %d + k*%d (offset selected by VERIF_SEED)" % (offset, stride), "rewards": rewards, "thresholds": list(thresholds)}
    if frac:
        block = -(-Un.size // frac)
        b = seed % frac
        lo, hi = b * block, min(Un.size, (b + 1) * block)
    shards = []
    for a, b in par.ranges(hi - lo, jobs * 6):
        shards.append({"kind": "universe", "prop": prop, "universe": name, "lo": lo + a, "hi": lo + b,
                       "rewards": rewards, "thresholds": tuple(thresholds), "stopping_only": stopping_only, "debug_log": debug_log, "alias_rows": alias_rows})
    return shards, {"universe": name, "description": Un.description, "size": Un.size,
                    "explored_indices": [lo, hi], "fraction": "1/%d (slice %d selected by VERIF_SEED)" % (frac, seed % frac) if frac else "all",
                    "rewards": rewards, "thresholds": list(thresholds)}


def pair_shards(prop, jobs, stride=1, offset=0):
    """every ordered pair (G1, G2), G1 != G2, of the family U-PAIR (or of every stride-th member): G1 is solved in a freshly forked
    process, then G2 is solved and judged there; one fork per pair, so that nothing but G1 precedes G2"""
    kw = {"stride": stride, "offset": offset} if stride > 1 else {}
    size = family_size("U-PAIR", **kw)
    shards = []
    for a, b in par.ranges(size, jobs * 3):
        sh = {"kind": "pairs", "prop": prop, "family": "U-PAIR", "lo": a, "hi": b, "planned": (b - a) * (size - 1)}
        sh.update(kw)
        shards.append(sh)
    return shards, dict({"universe": "U-PAIR ordered pairs", "size": size * (size - 1), "members": size,
                         "fraction": "all ordered pairs" if stride == 1 else "all ordered pairs of every %d-th member" % stride}, **kw)


def family_shards(prop, name, jobs, **kw):
    """kw may contain stride / offset: every stride-th member of the family starting at offset (VERIF_SEED rotates the offset)"""
    size = family_size(name, **kw)
    shards = []
    for a, b in par.ranges(size, jobs * 6):
        sh = {"kind": "games", "prop": prop, "family": name, "lo": a, "hi": b}
        sh.update(kw)
        shards.append(sh)
    return shards, dict({"universe": name, "size": size, "fraction": "all" if kw.get("stride", 1) == 1 else "every %d-th member" % kw["stride"]}, **kw)


def run_plan(ctx, prop, parts, rule, assumptions, kf_what=None, vacuity=None):
    shards, spaces = [], []
    for sh, sp in parts:
        shards.extend(sh)
        spaces.append(sp)
    # interleave so that every worker sees a mix of universes
    shards.sort(key=lambda s: (s["lo"] * 7919) % 104729)
    tot = par.run_shards(work, shards, ctx.jobs)
    if not tot:
        raise par.HarnessError("empty plan")
    truncated = bool(tot.get("truncated"))
    planned = sum(sh.get("planned", sh["hi"] - sh["lo"]) for sh in shards)
    if not truncated and tot["structures"] != planned:
        raise par.GuardError("%s: %d structures explored, %d planned" % (prop, tot["structures"], planned))
    if vacuity and not tot.get("violations"):
        vacuity(tot)
    known = tot.get("known", {})
    for kid, d in known.items():
        d["what"] = (kf_what or {}).get(kid, "")
    cov = {"states": tot["structures"], "transitions": tot["executions"],
           "traces_validated_against_impl": tot["judged"],
           "evaluations": tot["games"], "distinct_nontrivial": tot["nontrivial"], "rule": rule,
           "universes": spaces, "outcomes": tot.get("outcomes", {}), "classes": tot.get("classes", {}),
           "out_of_hypothesis_skipped": tot.get("skipped", 0),
           "nonstopping_solve_timeouts_not_judged": tot.get("nonstopping_unjudged", 0),
           "max_error_over_tolerance": round(tot.get("max_ratio", 0.0), 4),
           "stopping_games_without_result_within_alarm": tot.get("stopping_timeouts", 0),
           "exhaustive": not truncated, "samples": tot.get("samples", [])[:6]}
    for k in ("exact_states_judged", "exact_states_out_of_scope", "skipped_structures", "too_slow_to_judge", "aliased_row_games", "ordered_pairs"):
        if k in tot:
            cov[k] = tot[k]
    if tot.get("stopping_timeouts", 0):
        print("INCOMPLETE: solve() did not return within %.1f s CPU on %d stopping games; those runs were not judged by %s (termination is C06's verdict)"
              % (STOP_CPU, tot["stopping_timeouts"], prop))
    if tot.get("max_ratio", 0.0) > 1.0:
        raise par.HarnessError("error/tolerance ratio above 1 without a violation")
    return {"coverage": cov, "violations": tot.get("violations", []), "known": known, "assumptions": assumptions}


def replay_game(prop, case):
    """first the game alone (in a forked child, so that the attempt leaves no state behind in this process); if that does not reproduce
    the violation, the whole shard in which it was found is executed again here, in order: a defect that depends on what the process had
    solved before (state kept between games) reproduces that way"""
    alone = par.in_forked_child(lambda: _replay_alone(prop, case))
    if alone:
        return alone
    shard = case.get("config", {}).get("explored_in_shard")
    if not shard:
        return None
    shard = dict(shard)
    if "thresholds" in shard:
        shard["thresholds"] = tuple(shard["thresholds"])
    acc = work(shard)
    same = [c for c in acc.get("violations", []) if c.get("klass") == case.get("klass")]
    for c in same:
        if _norm(c.get("input")) == _norm(case.get("input")):
            return "after the games of the same shard were solved before it in the same process: %s" % c.get("explanation")
    if same:
        return "re-executing the shard in one process gives a violation of the same class on another game: %s" % same[0].get("explanation")
    return None


def _norm(x):
    import json
    return json.dumps(x, sort_keys=True, default=str)


def _replay_alone(prop, case):
    Rn.DEBUG_LOG = bool(((case.get("config") or {}).get("explored_in_shard") or {}).get("debug_log"))
    try:
        return _replay_alone_(prop, case)
    finally:
        Rn.DEBUG_LOG = False


def _replay_alone_(prop, case):
    first = (case.get("config") or {}).get("solved_before_in_the_same_process")
    if first:
        first = dict(first, transition_list=[[tuple(t) for t in row] for row in first["transition_list"]])
        for prune in (True, False):
            Rn.solve(first, prune, cpu_s=STOP_CPU, confirm=False)
    g = case["input"]
    tl = [[tuple(t) for t in row] for row in g["transition_list"]]
    sc = J.SCache(g["players"], tl, g["final_states"])
    sc.alias = bool((case.get("config") or {}).get("alias_rows"))
    acc = _new_acc()
    thr = case.get("config", {}).get("threshold")
    f, k = analyse_game(prop, sc, g["rewards"], acc, (thr,) if thr else ())
    want = case.get("klass")
    for x in f:
        if x[0] == want:
            return x[3]
    for x in k:
        if x[0] == want:
            return x[3]
    if f:
        return f[0][3]
    return None
