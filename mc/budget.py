"""Two-stage execution budget.

Non-termination is a real behaviour of the code under test (C06), so every call into it is bounded.
Stage 1 is a CPU-time alarm (ITIMER_VIRTUAL, so a loaded machine does not trigger it); it is only a
*trigger*.  Stage 2 re-runs the same case under a deterministic budget (a count of executed source
lines via sys.settrace) and only "budget exceeded" is reported as non-termination, so the same case
gets the same verdict everywhere.
"""
import signal
import sys


class Timeout(BaseException):
    pass


class BudgetExceeded(BaseException):
    pass


_state = {"armed": False}


def _handler(signum, frame):
    if _state["armed"]:
        _state["armed"] = False
        raise Timeout()


signal.signal(signal.SIGVTALRM, _handler)

DEFAULT_CPU_S = 1.0
DEFAULT_LINES = 1_000_000


def _run_traced(fn, max_lines):
    count = [0]

    def local(frame, event, arg):
        if event == "line":
            count[0] += 1
            if count[0] > max_lines:
                raise BudgetExceeded()
        return local

    def glob(frame, event, arg):
        return local

    old = sys.gettrace()
    sys.settrace(glob)
    try:
        return fn(), count[0]
    finally:
        sys.settrace(old)


def run_budgeted(fn, cpu_s=DEFAULT_CPU_S, max_lines=DEFAULT_LINES, confirm=True):
    """Run fn() (which must be re-runnable from pristine inputs).

    Returns ("ok", value), ("exc", exception) or ("diverged", lines_budget); with confirm=False the
    alarm alone ends the run and ("timeout", cpu_s) is returned - callers must not draw a verdict from it.
    """
    try:
        _state["armed"] = True
        signal.setitimer(signal.ITIMER_VIRTUAL, cpu_s)
        try:
            return ("ok", fn())
        finally:
            _state["armed"] = False
            signal.setitimer(signal.ITIMER_VIRTUAL, 0)
    except Timeout:
        if not confirm:
            return ("timeout", cpu_s)
    except Exception as e:                      # noqa: BLE001 - the outcome *is* the observation
        return ("exc", e)
    # stage 2: deterministic confirmation
    try:
        value, _ = _run_traced(fn, max_lines)
        return ("ok", value)
    except BudgetExceeded:
        return ("diverged", max_lines)
    except Exception as e:                      # noqa: BLE001
        return ("exc", e)
