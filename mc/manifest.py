"""Generates /verif/MANIFEST.json from one table (python -m mc.manifest)."""
import json
import os

HERE = os.path.dirname(os.path.dirname(os.path.abspath(__file__)))

BASELINE_OFF = ("cd /repo && env -u CONDITIONALREWARDS_VERIF /venv/bin/python -m pytest -ra -q -p no:cacheprovider "
                "--timeout=900 --continue-on-collection-errors")

# id -> (technique, level text, level note, design section)
TABLE = {
    "C01": ("exhaustive enumeration of small-game universes x modes x thresholds against an exact rational max-min solver",
            "Every game of the bounded universes (all 3-state games with every final set, 2-3 inner states + sinks, focus-state "
            "and decimal-tie families) is solved by the real code in both pruning modes and compared state by state with the exact "
            "max-min value from brute-force strategy enumeration: finals exactly 1, unreachable exactly 0, never above, within the "
            "per-game bound delta*(1+A(G)); thresholds 1e-2..1e-9 through the Solver seam; boards in Bellman-residual form.",
            "exact solver (Fractions, strategy enumeration); tolerance derivation of DESIGN 1.5; games above 7 states only in residual form",
            "2/C01"),
    "C02": ("exhaustive enumeration of stopping-game universes x reward vectors x modes; conditioned game rebuilt from the input and solved exactly",
            "For every solvable stopping game of the universes and every reward vector the conditioned game is rebuilt from the "
            "input description and the reported probabilities/strategies exactly as the property states it and its exact max-min "
            "total reward is compared with the reported rewards within delta*(1+A_R(G)); boards and example inputs in Bellman form.",
            "exact solver; tolerance derivation; rewards in {0,1,2}", "2/C02"),
    "C03": ("exhaustive enumeration of focus-state games (0-5 dead successors in every position) with structural oracle on the observed conditioned lists",
            "The transition lists at entry to reward solving are observed inside the real solve() and compared position by "
            "position with the lists the property prescribes, for every arrangement of dead successors up to 5 successors.",
            "observation by wrapping Solver.solve_total_rewards from the harness (method name pinned by the suite)", "2/C03"),
    "C04": ("exhaustive enumeration of small-game universes against exact optimal-action sets",
            "Reported reachability strategies are compared with the exact arg-max / arg-min action lists (transition order) for "
            "every player state of every enumerated game, both modes; rounded-tie losses matching the KF-C04-1 signature are known findings.",
            "exact solver; scope test (ties equal or separated by more than tolerance) evaluated exactly", "2/C04"),
    "C05": ("exhaustive enumeration; inclusion on all games, exact reward-optimal sets on stopping games",
            "final strategy subset of reachability strategy on every returned game; on stopping games the exact conditioned-reward "
            "optimal action lists are compared at states reachable in the conditioned game.",
            "exact solver; scope per the property's quantifier", "2/C05"),
    "C06": ("exhaustive enumeration of stopping games x rewards x modes with outcome-class oracle under a deterministic execution budget",
            "Every stopping game of the universes must return a complete 8-tuple or raise the no-solution error exactly when "
            "pruning and the exact value of state 0 is 0; any other exception or exceeding the deterministic line budget is a violation.",
            "termination = within 4e6 executed lines (legitimate solves need < 2e5)", "2/C06"),
    "C07": ("exhaustive enumeration of all small multigraphs x final sequences against BFS closure, plus depth ladder",
            "All directed multigraphs up to 4 (thorough 5) nodes x all final sequences with order and repetition, chains/cycles/"
            "trees/ladders up to 20000 nodes and generated boards are run through reverse_dfs and reverse_transition_list and "
            "compared with an independent breadth-first closure: exact list equality (sorted, no duplicates, no finals).",
            "BFS oracle in the harness; graphs above 5 nodes only by families", "2/C07"),
    "C08": ("explicit-state probabilistic bisimulation check (partition refinement) between generated games and a rule model, all boards up to 3 (thorough 4) tiles",
            "For every board up to the bound, each emitted game (through the real file writer and reader) is checked bisimilar "
            "from its initial state to a reference model written from the rules, with action labels, rewards, owners and finals.",
            "the rule model is my reading of the property text", "2/C08"),
    "C09": ("deviation-bounded enumeration: every single (and pairwise on small bases) rule violation at every position",
            "Every documented rule is broken at every position of every base game; solve() must raise ValueError and the batch "
            "runner must record the message.", "deviation alphabet listed in DESIGN 2/C09", "2/C09"),
    "C10": ("explicit-state exploration of solve histories (BFS over operation sequences with canonical state de-duplication)",
            "All histories up to depth 3 (thorough 4) over 12 operations (same/fresh object x pruned/unpruned solves, a batch run of the same description through run_games, three operations that solve a different description derived from this one in between, validation and counting on "
            "the persistent object, fresh solves with the root logger at DEBUG) on every game of the universes, with de-duplication of canonical "
            "states; after each step the description equals the pristine copy and the result equals the reference computed in a forked fresh process.",
            "state = deep snapshot of description + object attributes + module globals, class attributes and default-argument tuples", "2/C10"),
    "C11": ("exhaustive parameter-grid enumeration through the real CLI/file path with structural oracle",
            "Every parameter combination of the grid is run through roberta_generator.main(), the file is read back by the "
            "solver's reader (after it has read an unrelated file) and each game is validated structurally and solved.", "grid bounds; termination only claimed on the solve grid", "2/C11"),
    "C12": ("exhaustive enumeration of batch histories: all ordered selections of 0-3 (thorough 0-4) games from a 15-game alphabet, and all ordered two-game batches of the family U-PAIR",
            "run_games on every ordered selection (also a second time on the same dictionary, and through main -f FILE -s); every entry equals the "
            "solo solve of that game computed in a forked process of its own; failures are recorded and do not affect later games.",
            "alphabet of 15 games (solvable, unsolvable, malformed; own prune_states keys; colliding names; re-typed twins)", "2/C12"),
    "C13": ("exhaustive group action: all state permutations x transition orders x renamings on stopping-game universes, metamorphic oracle",
            "Every presentation of every enumerated stopping game is solved and compared with the base presentation.",
            "tolerance 2*eps(G); boards at 1e-3", "2/C13"),
    "C14": ("exhaustive enumeration of stopping games; diagnostics recomputed exactly from the reported strategies",
            "On every in-scope game the two diagnostic vectors are recomputed with the exact chain solver from the reported "
            "strategies and compared.", "scope decided exactly", "2/C14"),
    "C15": ("exhaustive seed/size grid, history exploration of generator call sequences, enumerated environment answers, full boundary product of parameter checks",
            "Range/shape over a seed x size x parameter grid, reproducibility over all call sequences up to depth 3 with foreign "
            "random calls interleaved, loose-tile frequency by enumerating an equidistributed grid of pseudo-random answers, and "
            "the full boundary-class product of the eight range checks; boards compared with per-parameter-set fresh processes and with the same calls in the "
            "opposite order; the games written by main() compared (bisimulation) with the board gen_rnd_board returns for the same arguments.", "grid bounds", "2/C15"),
    "C16": ("exhaustive enumeration of input files (batch alphabet x stems x renderings) through main() with an independent report parser; exhaustive enumeration of rewrite histories of one input path (texts x timestamp pinned or not, depth 3, thorough 4)",
            "Every file is run through the real CLI with -s; the report is parsed independently and every field must read back to "
            "the value of the batch result. One path is rewritten in place and re-read / re-run after every step of every rewrite history (state kept between reads).", "report layout assumptions (fixed label width)", "2/C16"),
    "C17": ("exhaustive enumeration of whole-percent parameter sets through the real CLI; injectivity by dictionary",
            "prob_to_str for all k=1..99 on every double denoting k/100 (quotient, literal, arithmetic results, neighbouring doubles), main() for every k in each position, all 99^2 pairs and a boundary product; the created "
            "path must parse back to the parameters and the map must be injective.", "enumerated products", "2/C17"),
}

BUILT = sorted(TABLE)


def build():
    checks = []
    for pid in sorted(TABLE):
        if pid not in BUILT:
            continue
        tech, text, note, ref = TABLE[pid]
        checks.append({
            "property_id": pid,
            "quick_cmd": "./check %s --tier quick" % pid,
            "thorough_cmd": "./check %s --tier thorough" % pid,
            "evidence_file": "/verif/evidence/%s.json" % pid,
            "replay_cmd_template": "./check %s --replay {path}" % pid,
            "engine": "mc-explorer",
            "level_claimed": {"category": "model_checking", "text": text, "design_ref": "DESIGN.md section " + ref},
            "level_note": note,
            "technique": tech,
        })
    na = [{"property_id": pid, "reason": "check not built yet in this round (planned, see DESIGN.md section 2); not claimed until it runs"}
          for pid in sorted(TABLE) if pid not in BUILT]
    return {
        "version": 1,
        "setup_cmd": "/venv/bin/python -m compileall -q /verif/mc && chmod +x /verif/check",
        "hooks": {
            "guard": "CONDITIONALREWARDS_VERIF",
            "enable": "no source hooks: the checks import /repo's working tree and observe it from the harness "
                      "(CONDITIONALREWARDS_VERIF=1 is exported by ./check and read by nothing in /repo)",
            "baseline_off_cmd": BASELINE_OFF,
            "source_commits": [],
            "add_only": True,
        },
        "engines": [{"name": "mc-explorer", "path": "/verif/mc",
                     "serves_properties": BUILT,
                     "kind_free_text": "hand-written explicit-state / bounded exhaustive explorer in Python driving the real "
                                       "functions of /repo, with exact rational reference models"}],
        "checks": checks,
        "not_applicable": na,
        "notes": "All checks: cwd /verif, ./check <ID> --tier quick|thorough; VERIF_SEED only rotates which slice of the "
                 "next-larger universe a quick run adds to its fixed exhaustive core. Fix commits in /repo are listed in "
                 "known_findings.txt.",
    }


if __name__ == "__main__":
    m = build()
    with open(os.path.join(HERE, "MANIFEST.json"), "w") as f:
        json.dump(m, f, indent=1)
        f.write("\n")
    print("MANIFEST.json written: %d checks, %d not claimed" % (len(m["checks"]), len(m["not_applicable"])))
