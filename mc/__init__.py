"""Bounded exhaustive exploration ("model checking") machinery for joaquinfeltes/conditionalrewards."""
