"""Reference model of 'Roborta vs. the fair light' written from the rule text of property C08 (no arithmetic on
state numbers), and a coarsest probabilistic bisimulation check by partition refinement."""
P1, P2, PR = "Player 1", "Player 2", "Probabilistic"
ARROWS = {0: ["Left"], 1: ["Left", "Right"], 2: ["Right"], 3: []}


def model(variant, moves, rewards, loose, p_rb, p_lb, p_tb):
    """state -> (owner, reward, final, transitions) for everything reachable from ('Light', 0, 0)"""
    L = len(moves)
    W = len(moves[0])

    def target(move, i, j):
        if move == "Down":
            return ("Win",) if i == L - 1 else ("Land", i + 1, j)
        if move == "Left":
            return ("Land", i, (j - 1) % W)
        return ("Land", i, (j + 1) % W)

    def after_move(move, i, j):
        return target(move, i, j) if variant == "A" else ("RobotFail", move, i, j)

    def after_light(colour, i, j):
        if variant == "C":
            return ("LightFail", colour, i, j)
        return ("Down", i, j) if colour == "Green" else ("Side", i, j)

    def expand(s):
        k = s[0]
        if k == "Win":
            return (PR, 0, True, [(1, s)])
        if k == "Lose":
            return (PR, 0, False, [(1, s)])
        if k == "Light":
            _, i, j = s
            tr = [("Green", after_light("Green", i, j))]
            if moves[i][j] != 3:
                tr.append(("Yellow", after_light("Yellow", i, j)))
            return (P2, rewards[i][j], False, tr)
        if k == "Down":
            _, i, j = s
            return (P1, 0, False, [("Down", after_move("Down", i, j))])
        if k == "Side":
            _, i, j = s
            return (P1, 0, False, [(m, after_move(m, i, j)) for m in ARROWS[moves[i][j]]])
        if k == "Free":
            _, i, j = s
            return (P1, 0, False, [(m, after_move(m, i, j)) for m in ["Down"] + ARROWS[moves[i][j]]])
        if k == "Land":
            _, i, j = s
            if loose[i][j]:
                return (PR, 0, False, [(p_tb, ("Lose",)), (1 - p_tb, ("Light", i, j))])
            return (PR, 0, False, [(1, ("Light", i, j))])
        if k == "RobotFail":
            _, m, i, j = s
            return (PR, 0, False, [(p_rb, ("Land", i, j)), (1 - p_rb, target(m, i, j))])
        if k == "LightFail":
            _, c, i, j = s
            ok = ("Down", i, j) if c == "Green" else ("Side", i, j)
            return (PR, 0, False, [(p_lb, ("Free", i, j)), (1 - p_lb, ok)])
        raise AssertionError(s)

    init = ("Light", 0, 0)
    out = {}
    todo = [init]
    while todo:
        s = todo.pop()
        if s in out:
            continue
        out[s] = expand(s)
        for _, t in out[s][3]:
            todo.append(t)
    return init, out


def game_graph(g):
    """the part of a generated game reachable from state 0, in the same format; None on a malformed game"""
    fin = set(g["final_states"])
    out = {}
    todo = [0]
    n = len(g["players"])
    while todo:
        s = todo.pop()
        if s in out:
            continue
        if not (0 <= s < n):
            return None
        out[s] = (g["players"][s], g["rewards"][s], s in fin, list(g["transition_list"][s]))
        for _, t in out[s][3]:
            todo.append(t)
    return 0, out


def bisimilar(i1, g1, i2, g2):
    """coarsest probabilistic bisimulation on the disjoint union; initial blocks by (owner, reward, final);
    signatures: action -> block for player states, block -> probability (rounded to 1e-9) for probabilistic ones.
    returns (bisimilar?, union states, union transitions, refinement rounds)"""
    nodes = {("a", s): v for s, v in g1.items()}
    nodes.update({("b", s): v for s, v in g2.items()})
    keys = {}
    block = {}
    for nd, (own, rew, fin, tr) in nodes.items():
        block[nd] = keys.setdefault((own, rew, fin), len(keys))
    rounds = 0
    nblocks = len(keys)
    while True:
        rounds += 1
        sig = {}
        for nd, (own, rew, fin, tr) in nodes.items():
            tag = nd[0]
            if own == PR:
                acc = {}
                for p, t in tr:
                    b = block[(tag, t)]
                    acc[b] = acc.get(b, 0) + p
                s = tuple(sorted((b, round(p, 9)) for b, p in acc.items()))
            else:
                s = tuple(sorted((a, block[(tag, t)]) for a, t in tr))
                if len(set(a for a, _ in tr)) != len(tr):
                    s = ("dup",) + s        # two transitions with the same action label: never equal to the model
            sig[nd] = (block[nd], s)
        keys = {}
        newblock = {nd: keys.setdefault(sig[nd], len(keys)) for nd in nodes}
        block = newblock
        if len(keys) == nblocks:
            break
        nblocks = len(keys)
    return (block[("a", i1)] == block[("b", i2)], len(nodes), sum(len(v[3]) for v in nodes.values()), rounds)
