"""Self-checks of the exact reference solver (the trusted base of C01-C06, C13, C14): determinacy (max-min == min-max,
state-wise) on every structure of the degree-2 sink universe and of a U-T3 slice, and hand-computed values of the paper's
figure 5.5 game.  A failure is a harness error, never a property verdict."""
from fractions import Fraction as F

from . import oracle as O, par, sweep


def _work(shard):
    name, lo, hi = shard
    Un = sweep.universe(name)
    n = bad = 0
    for players, tl, finals in Un.structures(lo, hi):
        etl = O.exact_rows(tl)
        a = O.reach_values(players, etl, finals)
        b = O.reach_values_minmax(players, etl, finals)
        n += 1
        if a != b:
            bad += 1
    return {"n": n, "bad": bad}


def run(ctx):
    shards = []
    for a, b in par.ranges(sweep.universe("U-S2d2").size, ctx.jobs * 2):
        shards.append(("U-S2d2", a, b))
    size = sweep.universe("U-T3").size
    step = size // 64
    for a, b in par.ranges(step, ctx.jobs * 2):
        shards.append(("U-T3", a, b))
    tot = par.run_shards(_work, shards, ctx.jobs)
    if tot["bad"]:
        raise par.HarnessError("exact oracle: max-min != min-max on %d structures" % tot["bad"])
    # figure 5.5 of the paper as shipped in inputs/example_games.py: values asserted by the repository's own tests
    from .repo import conditionalrewards as CR, REPO
    import os
    g = CR.read_dict_from_file(os.path.join(REPO, "inputs", "example_games.py"))["game_5_5"]
    v = O.reach_values(g["players"], O.exact_rows(g["transition_list"]), g["final_states"])
    if v[0] != F(3, 4):
        raise par.HarnessError("exact oracle: figure 5.5 initial value %s, expected 3/4" % v[0])
    return {"determinacy_structures_checked": tot["n"], "figure_5_5_initial_value": str(v[0])}
