"""Sharded execution over a fork pool and merging of the per-shard counters."""
import multiprocessing as mp
import os
import traceback

SAMPLE_CAP = 12
VIOL_CAP = 40


def merge(a, b):
    """sum numbers, max for keys starting with 'max_', extend lists (capped), recurse into dicts"""
    for k, v in b.items():
        if k not in a:
            a[k] = v
            continue
        if isinstance(v, dict):
            merge(a[k], v)
        elif isinstance(v, list):
            if k.startswith("samples"):
                cap = SAMPLE_CAP
            elif k == "violations" or k == "cases":
                cap = VIOL_CAP
            else:
                cap = None                      # any other list (e.g. per-shard parts) is kept whole
            if cap is None:
                a[k].extend(v)
            else:
                room = cap - len(a[k])
                if room > 0:
                    a[k].extend(v[:room])
        elif isinstance(v, bool):
            a[k] = a[k] and v
        elif isinstance(v, (int, float)):
            if k.startswith("max_"):
                a[k] = max(a[k], v)
            elif k.startswith("min_"):
                a[k] = min(a[k], v)
            else:
                a[k] = a[k] + v
        elif isinstance(v, set):
            a[k] |= v
        else:
            a[k] = v
    return a


EARLY_STOP_AFTER = 24          # once this many violations are in, remaining shards are skipped (run is failing anyway)
_counter = None


_HISTORY = []                  # per worker process: (function, shard) of everything this process has executed, in order
HISTORY_REPR_CAP = 400_000


def _attach_history(val):
    """a violation found by a long-lived worker may depend on what that process executed before (state kept by the code under test
    between inputs); the shards it had processed are recorded with the case so that the replay can re-execute them in order"""
    if not (isinstance(val, dict) and val.get("violations")):
        return
    hist = [[name, sh] for name, sh in _HISTORY]
    if len(repr(hist)) > HISTORY_REPR_CAP:
        hist = hist[-1:]
        if len(repr(hist)) > HISTORY_REPR_CAP:
            return
    for c in val["violations"]:
        if isinstance(c, dict):
            cfg = c.get("config")
            if cfg is None:
                cfg = c["config"] = {}
            if isinstance(cfg, dict):
                cfg["worker_history"] = hist


def replay_history(case):
    """re-execute, in this process and in order, the shards the finding worker had processed; returns an explanation if the last of them
    again yields a violation of the same class (preferably on the same input), else None"""
    import importlib
    hist = (case.get("config") or {}).get("worker_history")
    if not hist:
        return None
    last = None
    for name, shard in hist:
        modname, fnname = name.split(":")
        fn = getattr(importlib.import_module(modname), fnname)
        last = fn(shard)
    found = [c for c in (last or {}).get("violations", []) if isinstance(c, dict) and c.get("klass") == case.get("klass")]
    for c in found:
        if repr(c.get("input")) == repr(case.get("input")):
            return "reproduced only with its history (%d shard(s) executed before it in the same process): %s" % (len(hist) - 1, c.get("explanation"))
    if found:
        return ("re-executing the worker's history (%d shard(s)) in one process gives a violation of the same class on another input: %s"
                % (len(hist), found[0].get("explanation")))
    return None


def _call(args):
    fn, shard = args
    try:
        if _counter is not None and _counter.value >= EARLY_STOP_AFTER:
            return ("ok", {"truncated": 1, "skipped_shards": 1})
        _HISTORY.append((fn.__module__ + ":" + fn.__name__, shard))
        val = fn(shard)
        _attach_history(val)
        if _counter is not None:
            nv = val.get("n_violations", len(val.get("violations", []))) if isinstance(val, dict) else 0
            if nv:
                with _counter.get_lock():
                    _counter.value += nv
        return ("ok", val)
    except BaseException:                       # noqa: BLE001 - a worker crash is a harness error, reported as such
        return ("crash", "shard %r\n%s" % (shard, traceback.format_exc()))


class HarnessError(Exception):
    pass


class GuardError(HarnessError):
    """a vacuity or count guard (the run explored less than it must); expected, and ignored, in a light configuration pass"""


# configuration passes (mc/cli.py) re-run a check under another interpreter configuration on every LIGHT-th shard only
LIGHT = int(os.environ.get("VERIF_LIGHT", "0") or 0)


def default_jobs():
    env = os.environ.get("VERIF_JOBS")
    if env:
        return max(1, int(env))
    try:
        return max(1, len(os.sched_getaffinity(0)))
    except AttributeError:
        return os.cpu_count() or 1


def run_shards(fn, shards, jobs=None):
    """fn(shard) -> dict of counters; returns the merged dict."""
    jobs = jobs or default_jobs()
    total = {}
    shards = list(shards)
    del _HISTORY[:]
    if LIGHT > 1 and len(shards) > 1:
        try:
            off = int(os.environ.get("VERIF_SEED", "0") or 0) % LIGHT
        except ValueError:
            off = 0
        kept = shards[off::LIGHT] or shards[:1]
        total = {"truncated": 1, "skipped_shards": len(shards) - len(kept)}
        shards = kept
    if not shards:
        return total
    if jobs == 1 or len(shards) == 1:
        for sh in shards:
            st, val = _call((fn, sh))
            if st != "ok":
                raise HarnessError(val)
            merge(total, val)
        return total
    global _counter
    ctx = mp.get_context("fork")
    _counter = ctx.Value("i", 0)
    with ctx.Pool(min(jobs, len(shards)), initializer=pin_to_one_cpu) as pool:
        for st, val in pool.imap_unordered(_call, [(fn, sh) for sh in shards], chunksize=1):
            if st != "ok":
                pool.terminate()
                raise HarnessError(val)
            merge(total, val)
    return total


def ranges(size, parts):
    """split range(size) into at most `parts` contiguous (lo, hi) pieces"""
    parts = max(1, min(parts, size))
    step = -(-size // parts)
    return [(lo, min(size, lo + step)) for lo in range(0, size, step)]


def pin_to_one_cpu():
    """configuration pass 'onecpu': this process (and what it spawns) may use a single CPU, so that os.sched_getaffinity / os.cpu_count
    based sizing in the code under test sees a one-core machine; the CPU is chosen by pid, so a pool still spreads over the machine"""
    if os.environ.get("VERIF_ONE_CPU") and hasattr(os, "sched_setaffinity"):
        cpus = sorted(os.sched_getaffinity(0))
        if len(cpus) > 1:
            os.sched_setaffinity(0, {cpus[os.getpid() % len(cpus)]})


def in_forked_child(fn):
    """run fn() in a forked child and return its (picklable) result: nothing the call leaves behind in module or class state
    reaches the calling process"""
    import pickle
    r, w = os.pipe()
    pid = os.fork()
    if pid == 0:
        try:
            os.close(r)
            pin_to_one_cpu()
            try:
                out = ("ok", fn())
            except BaseException as e:                       # noqa: BLE001
                out = ("exc", "%s: %s" % (type(e).__name__, e))
            with os.fdopen(w, "wb") as f:
                pickle.dump(out, f)
        finally:
            os._exit(0)
    os.close(w)
    with os.fdopen(r, "rb") as f:
        data = f.read()
    os.waitpid(pid, 0)
    if not data:
        raise HarnessError("forked child returned nothing")
    st, val = pickle.loads(data)
    if st != "ok":
        raise HarnessError("forked child failed: %s" % val)
    return val
