"""Sharded execution over a fork pool and merging of the per-shard counters."""
import multiprocessing as mp
import os
import traceback

SAMPLE_CAP = 12
VIOL_CAP = 40


def merge(a, b):
    """sum numbers, max for keys starting with 'max_', extend lists (capped), recurse into dicts"""
    for k, v in b.items():
        if k not in a:
            a[k] = v
            continue
        if isinstance(v, dict):
            merge(a[k], v)
        elif isinstance(v, list):
            if k.startswith("samples"):
                cap = SAMPLE_CAP
            elif k == "violations" or k == "cases":
                cap = VIOL_CAP
            else:
                cap = None                      # any other list (e.g. per-shard parts) is kept whole
            if cap is None:
                a[k].extend(v)
            else:
                room = cap - len(a[k])
                if room > 0:
                    a[k].extend(v[:room])
        elif isinstance(v, bool):
            a[k] = a[k] and v
        elif isinstance(v, (int, float)):
            if k.startswith("max_"):
                a[k] = max(a[k], v)
            elif k.startswith("min_"):
                a[k] = min(a[k], v)
            else:
                a[k] = a[k] + v
        elif isinstance(v, set):
            a[k] |= v
        else:
            a[k] = v
    return a


EARLY_STOP_AFTER = 24          # once this many violations are in, remaining shards are skipped (run is failing anyway)
_counter = None


def _call(args):
    fn, shard = args
    try:
        if _counter is not None and _counter.value >= EARLY_STOP_AFTER:
            return ("ok", {"truncated": 1, "skipped_shards": 1})
        val = fn(shard)
        if _counter is not None:
            nv = val.get("n_violations", len(val.get("violations", []))) if isinstance(val, dict) else 0
            if nv:
                with _counter.get_lock():
                    _counter.value += nv
        return ("ok", val)
    except BaseException:                       # noqa: BLE001 - a worker crash is a harness error, reported as such
        return ("crash", "shard %r\n%s" % (shard, traceback.format_exc()))


class HarnessError(Exception):
    pass


def default_jobs():
    env = os.environ.get("VERIF_JOBS")
    if env:
        return max(1, int(env))
    try:
        return max(1, len(os.sched_getaffinity(0)))
    except AttributeError:
        return os.cpu_count() or 1


def run_shards(fn, shards, jobs=None):
    """fn(shard) -> dict of counters; returns the merged dict."""
    jobs = jobs or default_jobs()
    total = {}
    shards = list(shards)
    if not shards:
        return total
    if jobs == 1 or len(shards) == 1:
        for sh in shards:
            st, val = _call((fn, sh))
            if st != "ok":
                raise HarnessError(val)
            merge(total, val)
        return total
    global _counter
    ctx = mp.get_context("fork")
    _counter = ctx.Value("i", 0)
    with ctx.Pool(min(jobs, len(shards))) as pool:
        for st, val in pool.imap_unordered(_call, [(fn, sh) for sh in shards], chunksize=1):
            if st != "ok":
                pool.terminate()
                raise HarnessError(val)
            merge(total, val)
    return total


def ranges(size, parts):
    """split range(size) into at most `parts` contiguous (lo, hi) pieces"""
    parts = max(1, min(parts, size))
    step = -(-size // parts)
    return [(lo, min(size, lo + step)) for lo in range(0, size, step)]
