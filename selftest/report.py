#!/venv/bin/python
"""prints the markdown catch table (DESIGN.md section 7) from selftest/results.json and seeded/*/meta.json"""
import glob, json, os
HERE = os.path.dirname(os.path.abspath(__file__))
res = json.load(open(os.path.join(HERE, "results.json")))
print("| hand-written change (`selftest/mutants/<name>.diff`) | what it does | expected | caught by (quick tier) |")
print("|---|---|---|---|")
for name in sorted(res):
    r = res[name]
    print("| `%s` | %s | %s | %s |" % (name, r["note"], ", ".join(r["expected"]), r["status"].replace("CAUGHT-BY:", "").strip() or "-"))
print()
print("| independent change (`seeded/<id>/`) | property | needs to manifest | caught by (quick tier) |")
print("|---|---|---|---|")
for d in sorted(glob.glob(os.path.join(os.path.dirname(HERE), "seeded", "*"))):
    m = json.load(open(os.path.join(d, "meta.json")))
    need = (m.get("needs_to_manifest") or "").replace("\n", " ").replace("|", "/")
    if len(need) > 260:
        need = need[:257] + "..."
    print("| `%s` | %s | %s | %s |" % (os.path.basename(d), m["property"], need, ", ".join(m["caught_by"]) or "**missed**"))
