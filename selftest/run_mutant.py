#!/venv/bin/python
"""Apply one property-breaking patch to a scratch copy of /repo (HEAD), confirm the repository's own suite
still passes, run the named quick checks against the copy and report which ones raise an alarm.

usage: run_mutant.py <patch.diff> <ID> [<ID> ...] [--tier quick|thorough] [--base <commit>] [--demo <file>] [--keep] [--skip-tests]
The scratch copy lives under /tmp and is removed afterwards.  /repo itself is never touched.
"""
import os
import shutil
import subprocess
import sys
import tempfile

VERIF = os.path.dirname(os.path.dirname(os.path.abspath(__file__)))


def main():
    args = [a for a in sys.argv[1:] if not a.startswith("--")]
    demo = None
    if "--demo" in sys.argv:
        demo = os.path.abspath(sys.argv[sys.argv.index("--demo") + 1])
        args.remove(sys.argv[sys.argv.index("--demo") + 1])
    base = "HEAD"
    if "--base" in sys.argv:
        base = sys.argv[sys.argv.index("--base") + 1]
        args.remove(base)
    tier = "quick"
    if "--tier" in sys.argv:
        tier = sys.argv[sys.argv.index("--tier") + 1]
        args.remove(tier)
    patch, props = os.path.abspath(args[0]), args[1:]
    tmp = tempfile.mkdtemp(prefix="crverif_mut_")
    try:
        subprocess.run("git -C /repo archive %s | tar -x -C %s" % (base, tmp), shell=True, check=True)
        r = subprocess.run(["patch", "-p1", "-s", "-i", patch], cwd=tmp)
        if r.returncode != 0:
            print("PATCH-FAILED", patch)
            return 3
        env = dict(os.environ, PYTHONDONTWRITEBYTECODE="1")
        if "--skip-tests" not in sys.argv:
            t = subprocess.run(["/venv/bin/python", "-m", "pytest", "-q", "-p", "no:cacheprovider", "-x"], cwd=tmp,
                               env=env, capture_output=True, text=True)
            tail = t.stdout.strip().splitlines()[-1] if t.stdout.strip() else ""
            print("suite:", tail)
            if t.returncode != 0:
                print("SUITE-CATCHES-IT (not a valid mutant)")
                return 4
        if demo:
            clean = tempfile.mkdtemp(prefix="crverif_clean_")
            try:
                subprocess.run("git -C /repo archive %s | tar -x -C %s" % (base, clean), shell=True, check=True)
                cmd = ["/venv/bin/python", "-m", "pytest", "-q", "-p", "no:cacheprovider", demo] if os.path.basename(demo).startswith("test_") else ["/venv/bin/python", demo]
                for where, label in ((tmp, "with change"), (clean, "without change")):
                    shutil.copy(demo, where)
                    d = subprocess.run(cmd[:-1] + [os.path.join(where, os.path.basename(demo))], cwd=where, env=env, capture_output=True, text=True, timeout=600)
                    print("demo %s: exit=%d" % (label, d.returncode))
                    os.remove(os.path.join(where, os.path.basename(demo)))
            finally:
                shutil.rmtree(clean, ignore_errors=True)
        env["CR_VERIF_REPO"] = tmp
        env["CR_VERIF_EVIDENCE_DIR"] = os.path.join(tmp, "_evidence")
        caught = []
        for p in props:
            c = subprocess.run([os.path.join(VERIF, "check"), p, "--tier", tier], cwd=VERIF, env=env,
                               capture_output=True, text=True)
            lines = [l for l in c.stdout.splitlines() if l.startswith(("VIOLATION", "HARNESS", "KNOWN", "  ")) or l.startswith(p)]
            print("--- %s exit=%d" % (p, c.returncode))
            for l in lines[:12]:
                print("   ", l[:300])
            if c.returncode not in (0, 1):
                print(c.stdout[-2000:], c.stderr[-2000:])
            if c.returncode == 1:
                caught.append(p)
        print("CAUGHT-BY:", " ".join(caught) if caught else "(none)")
        return 0 if caught else 1
    finally:
        if "--keep" not in sys.argv:
            shutil.rmtree(tmp, ignore_errors=True)
        else:
            print("kept", tmp)


if __name__ == "__main__":
    sys.exit(main())
