#!/venv/bin/python
"""Regenerates selftest/mutants/*.diff (hand-written property-breaking changes) from (file, old text, new text)
triples against /repo HEAD, and selftest/mutants.json (which checks are expected to catch which change).
The reverts of the fix commits are generated from git."""
import difflib
import json
import os
import subprocess

HERE = os.path.dirname(os.path.abspath(__file__))
OUT = os.path.join(HERE, "mutants")

M = []


def mut(name, props, file, old, new, note=""):
    M.append((name, props, file, old, new, note))


# ---------------------------------------------------------------------------------------------------- C01
mut("c01_threshold", ["C01"], "tad.py", "solver = Solver(threshold=10**(-6), state_list=state_list)",
    "solver = Solver(threshold=10**(-3), state_list=state_list)", "weaker convergence threshold in solve()")
mut("c01_first_final", ["C01", "C07"], "reverse_dfs.py", "    for final_state in final_states:\n        states_reaching_final = reverse_dfs_recursive(",
    "    for final_state in final_states[:1]:\n        states_reaching_final = reverse_dfs_recursive(", "backward search only from the first final state")
mut("c01_p2_min_first_two", ["C01"], "tad.py",
    "        min_reach_prob = 1\n        for next_state in self.next_states:\n            next_state_reach_prob = state_list[next_state[NEXT_STATE_IDX]].reach_probability\n            if next_state_reach_prob < min_reach_prob:",
    "        min_reach_prob = 1\n        for next_state in self.next_states[:2]:\n            next_state_reach_prob = state_list[next_state[NEXT_STATE_IDX]].reach_probability\n            if next_state_reach_prob < min_reach_prob:",
    "Player 2 reach step looks at the first two actions only")
# ---------------------------------------------------------------------------------------------------- C02
mut("c02_rescale_by_removed", ["C02", "C03"], "tad.py",
    "            (_next_state[PROBABILITY] / surviving_probability, _next_state[NEXT_STATE_IDX])",
    "            (_next_state[PROBABILITY] / (1 - dead_states[0][PROBABILITY]), _next_state[NEXT_STATE_IDX])",
    "rescales by the first removed branch only (wrong when more than one branch is removed)")
mut("c02_p2_skips_last", ["C02", "C05", "C14"], "tad.py",
    "        min_rewards = state_list[self.next_states[0][NEXT_STATE_IDX]].expected_rewards\n        for next_state in self.next_states:",
    "        min_rewards = state_list[self.next_states[0][NEXT_STATE_IDX]].expected_rewards\n        for next_state in self.next_states[:2]:",
    "Player 2 reward step ignores a third action")
# ---------------------------------------------------------------------------------------------------- C03
# ---------------------------------------------------------------------------------------------------- C04
mut("c04_p2_no_ties", ["C04"], "tad.py",
    "            if next_state_reach_probability < min_reach_prob:\n                min_reach_prob = next_state_reach_probability\n                worst_strategies = [action]\n            elif next_state_reach_probability == min_reach_prob:\n                worst_strategies.append(action)",
    "            if next_state_reach_probability < min_reach_prob:\n                min_reach_prob = next_state_reach_probability\n                worst_strategies = [action]\n            elif next_state_reach_probability == min_reach_prob and not worst_strategies:\n                worst_strategies.append(action)",
    "Player 2 reachability ties: only the first minimiser is listed")
mut("c04_floor_minus_3", ["C04"], "tad.py", "        self.floor = abs(math.floor(math.log(threshold, 10)))",
    "        self.floor = abs(math.floor(math.log(threshold, 10))) - 3", "strategies compare values rounded to 3 digits")
# ---------------------------------------------------------------------------------------------------- C05
mut("c05_p2_argmax", ["C05"], "tad.py",
    "            if next_state_expected_rewards < min_rewards:\n                min_rewards = next_state_expected_rewards\n                worst_strategies = [action]",
    "            if next_state_expected_rewards > min_rewards:\n                min_rewards = next_state_expected_rewards\n                worst_strategies = [action]",
    "Player 2 final strategy lists reward maximisers")
mut("c05_final_from_unrestricted", ["C05"], "tad.py",
    "        self.next_states = [\n            (action, next_state) for action, next_state in self.next_states\n            if action in best_strategies]",
    "        self.restricted_next_states = [\n            (action, next_state) for action, next_state in self.next_states\n            if action in best_strategies]\n        if len(self.restricted_next_states) == 1:\n            self.next_states = self.restricted_next_states",
    "Player 1 is only restricted when a single reachability-optimal action exists; with several, all original actions stay")
# ---------------------------------------------------------------------------------------------------- C06
mut("c06_no_prune_flag", ["C06"], "tad.py", "        if self.state_list[0].reach_probability == 0 and prune_states:",
    "        if self.state_list[0].reach_probability == 0:", "no-solution error also with pruning off")
# ---------------------------------------------------------------------------------------------------- C07
mut("c07_finals_twice", ["C07", "C01"], "reverse_dfs.py",
    "    states_reaching_final = [state for state in states_reaching_final if state not in final_states]",
    "    states_reaching_final = [state for state in states_reaching_final if state not in final_states[:1] + final_states[-1:]]",
    "only the first and last listed finals are filtered out")
# ---------------------------------------------------------------------------------------------------- C08
mut("c08_swap_light_groups", ["C08"], "roberta_generator.py",
    "    # 8 light Green break\n    transition_list += prob_light_break_transitions(\n        length, width, prob_light_break, offset_ok=(robot_down*n_tiles),",
    "    # 8 light Green break\n    transition_list += prob_light_break_transitions(\n        length, width, prob_light_break, offset_ok=(robot_left_right*n_tiles),",
    "game C: a working Green light lets the robot move sideways")
mut("c08_left_wrap", ["C08"], "roberta_generator.py",
    "            if j == 0:\n                transition.append((1 - prob_robot_break, offset + i * width + width - 1))",
    "            if j == 0:\n                transition.append((1 - prob_robot_break, offset + i * width + max(width - 2, 0)))",
    "games B/C: Left from the first column lands one tile short of the wrap-around")
# ---------------------------------------------------------------------------------------------------- C09
mut("c09_off_by_one_successor", ["C09"], "tad.py",
    "            if next_state[NEXT_STATE_IDX] < 0 or next_state[NEXT_STATE_IDX] >= self.num_states:",
    "            if next_state[NEXT_STATE_IDX] < 0 or next_state[NEXT_STATE_IDX] > self.num_states:", "successor index n accepted")
mut("c09_first_transition_only", ["C09"], "tad.py",
    "        for next_state in self.next_states:\n            if not isinstance(next_state, tuple):",
    "        for next_state in self.next_states[:1]:\n            if not isinstance(next_state, tuple):", "only the first transition of a state is validated")
# ---------------------------------------------------------------------------------------------------- C10
mut("c10_slice_assign", ["C10"], "tad.py", "        self.next_states = [\n            (_next_state[PROBABILITY] / surviving_probability",
    "        self.next_states[:] = [\n            (_next_state[PROBABILITY] / surviving_probability", "in-place pruning through the aliased list")
mut("c10_cache_state_list", ["C10"], "tad.py", "        state_list = self.init_states()\n        solver = Solver(",
    "        if not hasattr(self, \"_state_list\"):\n            self._state_list = self.init_states()\n        state_list = self._state_list\n        solver = Solver(",
    "state objects cached on the game object between solves")
# ---------------------------------------------------------------------------------------------------- C11
mut("c11_round_probability", ["C11", "C08"], "roberta_generator.py",
    "                transition.append((1 - prob_tile_break, offset + i * width + j))",
    "                transition.append((round(1 - prob_tile_break, 1), offset + i * width + j))", "1 - p rounded to one digit")
mut("c11_no_losing_loop", ["C11", "C08"], "roberta_generator.py",
    "    transition_list.append([(1, loosing_state)])\n    transition_list.append([(1, winning_state)])\n\n    game = {\n        \"rewards\": my_rewards,\n        \"players\": my_players,\n        \"transition_list\": transition_list,\n        \"final_states\": my_final_states\n    }\n    my_file.write(\" 'game_b': \")",
    "    transition_list.append([(1, winning_state)])\n    transition_list.append([(1, winning_state)])\n\n    game = {\n        \"rewards\": my_rewards,\n        \"players\": my_players,\n        \"transition_list\": transition_list,\n        \"final_states\": my_final_states\n    }\n    my_file.write(\" 'game_b': \")",
    "game B: the losing state leads to the winning state")
# ---------------------------------------------------------------------------------------------------- C12
mut("c12_flag_not_reset", ["C12"], "conditionalrewards.py",
    "    for name, game in games_dict.items():\n        prev_game_had_solution = True\n",
    "    prev_game_had_solution = True\n    for name, game in games_dict.items():\n", "had-solution flag not reset per game")
# ---------------------------------------------------------------------------------------------------- C13
mut("c13_position_restrict", ["C13", "C05", "C02"], "tad.py",
    "        self.next_states = [\n            (action, next_state) for action, next_state in self.next_states\n            if action in best_strategies]",
    "        best_sorted = sorted(best_strategies)\n        self.next_states = [\n            (action, next_state) for action, next_state in self.next_states\n            if action in best_sorted[:max(1, len(best_sorted) - (len(self.next_states) > 2))]]",
    "with three or more actions the alphabetically last reachability-optimal action is dropped (name-order dependence)")
# ---------------------------------------------------------------------------------------------------- C14
# ---------------------------------------------------------------------------------------------------- C15
mut("c15_seed_late", ["C15"], "roberta_generator.py",
    "    random.seed(seed)\n    for i in range(length):\n        rewards.append([])\n        loose_tiles.append([])\n        for _ in range(width):\n",
    "    for i in range(length):\n        rewards.append([])\n        loose_tiles.append([])\n        for _ in range(width):\n            if i == 0 and len(rewards[0]) == 1:\n                random.seed(seed)\n",
    "the generator is seeded after the first draw")
mut("c15_loose_gt", ["C15"], "roberta_generator.py", "1 if random.random() < prob_loose_tile else 0", "1 if random.random() > prob_loose_tile else 0",
    "loose tiles occur with frequency 1 - p")
mut("c15_width0", ["C15"], "roberta_generator.py", "    if width <= 0:", "    if width < 0:", "width 0 accepted")
# ---------------------------------------------------------------------------------------------------- C16
mut("c16_wrong_field", ["C16", "C12"], "conditionalrewards.py", "Rewards min reach       : {game['rew_min_reach']}", "Rewards min reach       : {game['rewards']}",
    "wrong source key on a report line")
mut("c16_stem", ["C16", "C12"], "conditionalrewards.py", "os.path.splitext(os.path.basename(file_name))[0]", "os.path.splitext(os.path.basename(file_name))[0].split(\"_\")[0]",
    "report named after the part of the stem before the first underscore")
# ---------------------------------------------------------------------------------------------------- C17
mut("c17_no_lt_when_forced", ["C17"], "roberta_generator.py",
    "                \"lt\" + prob_to_str(prob_loose_tile) + \\\n                (\"_force_down\" if force_down else \"\") + \".py\"",
    "                (\"_force_down\" if force_down else \"lt\" + prob_to_str(prob_loose_tile)) + \".py\"",
    "the loose-tile percentage is omitted when force-down is set")

mut("c07_two_preds", ["C07", "C01"], "reverse_dfs.py", "        pending.extend(reversed(reversed_transitions[current_state]))",
    "        pending.extend(reversed(reversed_transitions[current_state][:2]))", "only the first two predecessors of a state are followed")
mut("c14_p2_first_allowed", ["C14"], "tad.py",
    "                if next_state_exp_rewards < min_rewards:\n                    min_rewards = next_state_exp_rewards\n        min_rewards += self.reward\n        return min_rewards",
    "                if next_state_exp_rewards < min_rewards and len(strategies) > 2:\n                    min_rewards = next_state_exp_rewards\n        min_rewards += self.reward\n        return min_rewards",
    "'rewards under minimal reachability': with two reachability-optimal actions Player 2 takes the first, not the cheapest")

REVERTS = [("edf2190", "revert_F3_reverse_dfs", ["C07", "C01"]), ("f849c62", "revert_F1_prune_paths", ["C02", "C03", "C06", "C10", "C13"]),
           ("ce29c7c", "revert_F6_count_transitions", ["C09", "C12"]), ("b382449", "revert_F4_width1", ["C08"]),
           ("a068c84", "revert_F5_prob_to_str", ["C17"]), ("b802ce9", "revert_F7_reward_clamp", ["C15"]),
           ("bc2917a", "revert_F8_surviving_mass", ["C02", "C06"]), ("734775f", "revert_F9_reward_overflow", ["C15"]),
           ("92fdb0a", "revert_F10_stale_num_states", ["C09"]), ("367f1f8", "revert_F11_batch_prune_key", ["C10", "C12"]),
           ("7502ae2", "revert_F12_ulp_convergence", ["C06"]), ("18aaa3d", "revert_F13_report_name", ["C16"])]


def head(file):
    return subprocess.run(["git", "-C", "/repo", "show", "HEAD:" + file], capture_output=True, text=True, check=True).stdout


def main():
    os.makedirs(OUT, exist_ok=True)
    for f in os.listdir(OUT):
        os.remove(os.path.join(OUT, f))
    table = {}
    for name, props, file, old, new, note in M:
        src = head(file)
        if src.count(old) != 1:
            raise SystemExit("mutant %s: old text occurs %d times in %s" % (name, src.count(old), file))
        dst = src.replace(old, new)
        diff = "".join(difflib.unified_diff(src.splitlines(True), dst.splitlines(True), "a/" + file, "b/" + file))
        with open(os.path.join(OUT, name + ".diff"), "w") as f:
            f.write(diff)
        table[name] = {"expected": props, "note": note}
    for commit, name, props in REVERTS:
        d = subprocess.run(["git", "-C", "/repo", "diff", commit, commit + "^"], capture_output=True, text=True, check=True).stdout
        with open(os.path.join(OUT, name + ".diff"), "w") as f:
            f.write(d)
        table[name] = {"expected": props, "note": "the pre-fix code of fix commit " + commit, "base": commit}
    with open(os.path.join(HERE, "mutants.json"), "w") as f:
        json.dump(table, f, indent=1)
    print("%d mutants written" % len(table))


if __name__ == "__main__":
    main()
