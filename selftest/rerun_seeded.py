#!/venv/bin/python
"""rerun_seeded.py <seeded id> [<check IDs>...]: re-run a kept seeded change against the commit of /repo it was written for
(meta.json: base_commit), with its demonstration, and against the named checks (default: the checks recorded as catching it)."""
import glob, json, os, subprocess, sys
HERE = os.path.dirname(os.path.abspath(__file__))
d = os.path.join(os.path.dirname(HERE), "seeded", sys.argv[1])
m = json.load(open(os.path.join(d, "meta.json")))
checks = sys.argv[2:] or m.get("caught_by") or [m["property"]]
demo = sorted(glob.glob(os.path.join(d, "*.py")), key=lambda f: (not os.path.basename(f).startswith(("demo", "test_")), f))[0]
sys.exit(subprocess.run([os.path.join(HERE, "run_mutant.py"), os.path.join(d, "patch.diff")] + checks +
                        ["--demo", demo, "--base", m.get("base_commit", "HEAD")]).returncode)
