#!/venv/bin/python
"""keep_seeded.py <src dir> <seeded id> <checks run...>: copy a confirmed sub-agent change into /verif/seeded/<id>/ with a meta.json
that records which property it breaks, what it needs to manifest and what was run here to confirm it."""
import glob, json, os, shutil, sys
src, sid, checks = os.path.abspath(sys.argv[1]), sys.argv[2], sys.argv[3:]
dst = os.path.join(os.path.dirname(os.path.dirname(os.path.abspath(__file__))), "seeded", sid)
os.makedirs(dst, exist_ok=True)
shutil.copy(os.path.join(src, "patch.diff"), dst)
demos = [f for f in glob.glob(os.path.join(src, "*.py"))]
for f in demos:
    shutil.copy(f, dst)
meta = json.load(open(os.path.join(src, "meta.json")))
log = open(os.path.join(src, "verif_run.log")).read().splitlines()
pick = [l for l in log if l.startswith(("suite:", "demo ", "CAUGHT-BY"))]
first = [l.strip() for l in log if l.startswith("      ")][:3]
import subprocess
out = {"property": meta.get("property"), "base_commit": subprocess.run(["git", "-C", "/repo", "rev-parse", "--short", "HEAD"], capture_output=True, text=True).stdout.strip(), "origin": "independent sub-agent given only the property text and a scratch worktree",
       "summary": meta.get("summary"), "needs_to_manifest": meta.get("needs_to_manifest"),
       "why_tests_still_pass": meta.get("why_tests_still_pass"),
       "demonstration": [os.path.basename(f) for f in demos],
       "confirmed_here": {"how": "selftest/run_mutant.py <patch> %s --demo <demo>: patch applied to a scratch copy of /repo HEAD (git archive), "
                                 "unedited suite run there, demo run with and without the change, then the listed quick checks with CR_VERIF_REPO=<copy>; copy removed" % " ".join(checks),
                          "results": pick, "first_reports": first},
       "caught_by": [l.split(":", 1)[1].split() for l in pick if l.startswith("CAUGHT-BY")][0] if any(l.startswith("CAUGHT-BY") for l in pick) else []}
json.dump(out, open(os.path.join(dst, "meta.json"), "w"), indent=1)
print(sid, out["caught_by"])
