#!/venv/bin/python
"""Runs every mutant of selftest/mutants.json against the checks expected to catch it and prints a table.
usage: run_all.py [name-prefix ...]   (results also written to selftest/results.json)"""
import json
import os
import subprocess
import sys

HERE = os.path.dirname(os.path.abspath(__file__))
table = json.load(open(os.path.join(HERE, "mutants.json")))
sel = sys.argv[1:]
results = {}
respath = os.path.join(HERE, "results.json")
if os.path.exists(respath):
    results = json.load(open(respath))
for name in sorted(table):
    if sel and not any(name.startswith(s) for s in sel):
        continue
    exp = table[name]["expected"]
    r = subprocess.run([os.path.join(HERE, "run_mutant.py"), os.path.join(HERE, "mutants", name + ".diff")] + exp +
                       (["--base", table[name]["base"]] if table[name].get("base") else []),
                       capture_output=True, text=True)
    out = r.stdout
    suite = [l for l in out.splitlines() if l.startswith("suite:")]
    caught = [l for l in out.splitlines() if l.startswith("CAUGHT-BY:")]
    status = "INVALID(suite fails)" if "SUITE-CATCHES-IT" in out else ("PATCH-FAILED" if "PATCH-FAILED" in out else (caught[0] if caught else "?"))
    harness = "HARNESS" in out
    print("%-32s expected %-22s %s %s%s" % (name, ",".join(exp), suite[0] if suite else "", status, "  [HARNESS-ERROR]" if harness else ""), flush=True)
    results[name] = {"expected": exp, "status": status, "harness_error": harness, "note": table[name]["note"]}
    json.dump(results, open(respath, "w"), indent=1)
