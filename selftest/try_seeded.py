#!/venv/bin/python
"""try_seeded.py <dir with patch.diff, demo.py|test_demo.py, meta.json> <ID> [<ID>...]  -> one summary line + log file"""
import glob, json, os, subprocess, sys
d = os.path.abspath(sys.argv[1]); props = sys.argv[2:]
demo = [f for f in glob.glob(os.path.join(d, "*.py"))]
demo = sorted(demo, key=lambda f: (not os.path.basename(f).startswith(("demo", "test_")), f))[0]
r = subprocess.run([os.path.join(os.path.dirname(os.path.abspath(__file__)), "run_mutant.py"), os.path.join(d, "patch.diff")] + props + ["--demo", demo],
                   capture_output=True, text=True)
open(os.path.join(d, "verif_run.log"), "w").write(r.stdout + r.stderr)
lines = r.stdout.splitlines()
pick = [l for l in lines if l.startswith(("suite:", "demo ", "CAUGHT-BY", "PATCH-FAILED", "SUITE-CATCHES"))]
print(d.replace("/tmp/seeded_out/", ""), "|", " | ".join(pick), "| HARNESS-ERROR" if "HARNESS" in r.stdout else "")
first = [l.strip() for l in lines if l.startswith("      ")][:2]
for l in first: print("      ", l[:220])
