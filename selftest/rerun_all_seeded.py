#!/venv/bin/python
"""rerun_all_seeded.py [-j N] [prefix ...]: re-run every kept sub-agent change (seeded/<id>/patch.diff) against the checks recorded as
catching it - on /repo HEAD where the patch still applies there, otherwise on the commit it was written for - and write
selftest/seeded_results.json.  Demonstrations and the suite were confirmed when the change was kept; here only the checks are run."""
import concurrent.futures as cf
import glob
import json
import os
import subprocess
import sys
import tempfile
import shutil

HERE = os.path.dirname(os.path.abspath(__file__))
SEEDED = os.path.join(os.path.dirname(HERE), "seeded")


def applies_on_head(patch):
    tmp = tempfile.mkdtemp(prefix="crverif_apply_")
    try:
        subprocess.run("git -C /repo archive HEAD | tar -x -C %s" % tmp, shell=True, check=True)
        r = subprocess.run(["patch", "-p1", "-s", "--dry-run", "-i", patch], cwd=tmp, capture_output=True)
        return r.returncode == 0
    finally:
        shutil.rmtree(tmp, ignore_errors=True)


def one(sid):
    d = os.path.join(SEEDED, sid)
    m = json.load(open(os.path.join(d, "meta.json")))
    checks = m.get("caught_by") or [m["property"]]
    patch = os.path.join(d, "patch.diff")
    base = "HEAD" if applies_on_head(patch) else m.get("base_commit", "HEAD")
    r = subprocess.run([os.path.join(HERE, "run_mutant.py"), patch] + checks + ["--base", base, "--skip-tests"], capture_output=True, text=True)
    caught = [l for l in r.stdout.splitlines() if l.startswith("CAUGHT-BY:")]
    if base == "HEAD" and m.get("base_commit") and (not caught or "(none)" in caught[0]):
        # a change written for an older tree can lose its effect when its patch is applied to the present one (the lines it relies on
        # were repaired since): then it is run on the tree it was written for
        base = m["base_commit"]
        r = subprocess.run([os.path.join(HERE, "run_mutant.py"), patch] + checks + ["--base", base, "--skip-tests"], capture_output=True, text=True)
        caught = [l for l in r.stdout.splitlines() if l.startswith("CAUGHT-BY:")]
    return sid, {"property": m.get("property"), "checks": checks, "tree": base, "caught_by": caught[0].split(":", 1)[1].split() if caught else [],
                 "harness_error": "HARNESS" in r.stdout, "patch_failed": "PATCH-FAILED" in r.stdout}


def main():
    args = sys.argv[1:]
    jobs = 3
    if "-j" in args:
        jobs = int(args[args.index("-j") + 1])
        del args[args.index("-j"):args.index("-j") + 2]
    ids = sorted(os.path.basename(p) for p in glob.glob(os.path.join(SEEDED, "*")) if os.path.isdir(p))
    if args:
        ids = [i for i in ids if any(i.startswith(a) for a in args)]
    respath = os.path.join(HERE, "seeded_results.json")
    results = json.load(open(respath)) if os.path.exists(respath) else {}
    with cf.ThreadPoolExecutor(jobs) as ex:
        for sid, res in ex.map(one, ids):
            results[sid] = res
            ok = bool(res["caught_by"]) and "(none)" not in res["caught_by"]
            print("%-12s %-5s tree=%-8s checks=%s caught_by=%s%s" % (sid, "ok" if ok else "MISS", res["tree"], ",".join(res["checks"]), ",".join(res["caught_by"]),
                                                                       " [HARNESS]" if res["harness_error"] else ""), flush=True)
            json.dump(results, open(respath, "w"), indent=1, sort_keys=True)


if __name__ == "__main__":
    main()
